import sys, os
sys.path.insert(0, os.path.dirname(os.path.abspath(__file__)))
from mkmutant import mk
T = 'teneva/transformation.py'
A2 = 'teneva/act_two.py'
mk('C09-mul-number-nocopy', [(A2, "    if teneva._is_num(Y2):\n        Y = teneva.copy(Y1)\n        Y[0] *= Y2\n        return Y\n", "    if teneva._is_num(Y2):\n        Y = list(Y1)\n        Y[0] = Y[0] * Y2\n        return Y\n")], 'C09', 'mul(Y, number) returns the argument cores 1.. themselves (aliasing only)')
mk('C09-sub-negates-argument', [(A2, "        Y2 = teneva.copy(Y2)\n        Y2[0] *= -1.\n", "        Y2 = list(Y2)\n        Y2[0] *= -1.\n")], 'C09', 'sub negates the first core of its second argument in place')
mk('C09-outer-nocopy', [(A2, "    Y = teneva.copy(Y1)\n    Y.extend(teneva.copy(Y2))\n    return Y\n", "    Y = teneva.copy(Y1)\n    Y.extend(Y2)\n    return Y\n")], 'C09', 'outer shares the cores of its second argument')
mk('C09-copy-same-list', [('teneva/act_one.py', "        return [G.copy() for G in Y]\n", "        return [G.copy() if G.size > 2 else G for G in Y]\n")], 'C09', 'copy does not copy tiny cores')
mk('C09-alsfunc-writes-A0', [('teneva/als_func.py', "    Y = teneva.copy(A0)\n", "    Y = list(A0)\n")], 'C09', 'als_func optimises the cores of A0 in place (Q[...] = sol)')
mk('C09-cdf-nocopy', [('teneva/stat.py', "    x = np.array(x, copy=True)\n    x.sort()\n", "    x = np.asarray(x)\n    x.sort()\n")], 'C09', 'cdf_getter sorts the caller\'s array')
mk('C09-optimafunc-scales-arg', [('teneva/optima_func.py', "    A = teneva.copy(A)\n    for G in A:\n", "    A = list(A)\n    for G in A:\n")], 'C09', 'optima_func_tt_beam scales the argument cores in place')
mk('C09-samplefunc-scales-arg', [('teneva/sample_func.py', "        A = teneva.copy(A)\n        for G in A:\n", "        A = list(A)\n        for G in A:\n")], 'C09', 'sample_func scales the argument cores in place')
mk('C09-funcint-overwrite', [('teneva/func.py', "            A[k] = dct(y, 1, axis=1) / (y.shape[1] - 1)\n", "            A[k] = dct(y, 1, axis=1, overwrite_x=True) / (y.shape[1] - 1)\n")], 'C09', 'func_int lets the DCT overwrite its input')
mk('C09-sample-unsert-view', [('teneva/sample.py', "    p = Y[0] @ phi[1]\n    p = p.flatten()\n", "    p = (Y[0] @ phi[1]).reshape(-1) if Y[0].shape[2] > 1 else Y[0].reshape(-1)\n")], 'C09', 'for rank-1 first cores the probability vector is a view of the core: += unsert writes into the argument')
mk('C09-svd-nocopy', [('teneva/svd.py', "    Z = Y_full.copy()\n", "    Z = Y_full\n")], 'C09', 'svd without the defensive copy (reshape + skeleton never write): expected to survive unless something writes')
mk('C09-getmany-view-first', [('teneva/act_one.py', "def mean(Y, P=None, norm=True):", "def mean(Y, P=None, norm=True):"), ('teneva/transformation.py', "    for G in Y[1:]:\n        Z = np.tensordot(Z, G, 1)\n", "    for G in Y[1:]:\n        Z = np.tensordot(Z, G, 1) if G.shape != (1, 1, 1) else Z.reshape(Z.shape + (1,))\n")], 'C09', 'full() skips trivial trailing cores of mode size 1: for shapes like [n,1] the result is a view of the first core')
mk('C09-accuracy-data-asarray-sort', [('teneva/data.py', "    y_data = np.asanyarray(y_data, dtype=float)\n", "    y_data = np.asanyarray(y_data, dtype=float)\n    if e_trunc is not None:\n        y_data -= 0.0\n        I_data.sort(axis=0)\n        I_data = I_data\n")], 'C09', 'with e_trunc the index batch is sorted in place')

mk('C09-orthleft-shallow', [(T, "    Z = Y if inplace else teneva.copy(Y)\n\n    r1, n1, r2 = Z[i].shape\n", "    Z = Y if inplace else list(Y)\n\n    r1, n1, r2 = Z[i].shape\n")], 'C09', 'orthogonalize_left(inplace=False) copies the list only: untouched cores of the result are the argument cores')

mk('C09-full-onecore-view', [(T, "    Z = Y[0] if len(Y) > 1 else Y[0].copy()\n", "    Z = Y[0]\n")], 'C09', 'the repaired defect: full() of a one-core tensor returns a view of the core')
