"""Writes MANIFEST.json (kept in one place so that it always validates)."""
import json, os
ROOT = os.path.dirname(os.path.dirname(os.path.abspath(__file__)))
BASE = "cd /repo && /venv/bin/python -m pytest -ra -q -p no:cacheprovider --timeout=900 --continue-on-collection-errors"
TECH = 'deterministic simulation with fault injection'
CLAIMED = {
 'C06': dict(engine='cross_sim', cat='fault_enumeration', ref='DESIGN.md 3.1',
   text='Per sampled scenario every interruption point of TT-cross is enumerated (objective returns None at call k for every k, every budget m or every behaviour class of m, callback True at every sweep, x no/empty/pre-populated cache, plus seeded fault combinations and all 32 stop-argument subsets) and each faulted run is checked by invariants inside the seams (index domain, budget) and against an executable reference model of the budget/cache/stop protocol driven by the fault-free twin. Scenarios are sampled, interruption points per scenario are complete.',
   note='Trusted: the stub objective (exact table lookup), numpy. The model-based sub-oracles assume that a faulted run requests the same batches as the fault-free twin up to its stop (checked; otherwise skipped and counted). Bounds d<=5, n_k<=6, <=4 sweeps.',
   technique=TECH + ': seeded scenarios, complete fault-site enumeration per scenario, twin-run refinement against a reference model'),
 'C05': dict(engine='cross_sim', cat='exploration', ref='DESIGN.md 3.2',
   text='Seeded incarnation sequences: TT-cross is crashed (objective None / budget / callback) up to 4 times with only the cache dictionary surviving, restarted, and finally run fault-free; every incarnation is compared with its uncached fault-free twin (bit-identical tensors per sweep, conserved request counts, exact dictionary content, exactly-once evaluation over the whole sequence), info is recomputed independently from the returned tensor, and exact-rank targets must be reproduced to 1e-8 within a bounded number of sweeps.',
   note='Trusted: stub objective, dense reference evaluation (plain matrix chain), numpy SVD for the true unfolding ranks. Sampling only; generic targets with conditioning <= 1e5.',
   technique=TECH + ': crash/restart with surviving durable state, twin-run refinement, bounded liveness in sweeps'),
 'C07': dict(engine='als_sim', cat='exploration', ref='DESIGN.md 3.3',
   text='TT-ALS (index and functional version) is run as a checkpointed job under seeded sweep plans: segments ended by nswp or by callback cancellation, restart from the returned tensor, training rows re-delivered in permuted order, clock jumps; invariants at every sweep (descent of the regularised objective, shape/ranks), per-core normal-equation residual recomputed independently, restart equivalence against the continuous run, order independence judged by per-state noise probes.',
   note='Trusted: independent dense recomputation of objective and normal equations. Tolerances: descent 1e-10 relative, optimality 1e-8 relative, order independence relative to measured conditioning; scenarios with lamb < 1e-8 are judged by the stationarity oracle only (tolerance 1e-6), the descent failure there is a known finding (known_findings.json) probed in every run.',
   technique=TECH + ': sweep-plan splitting / cancellation / restart with re-ordered delivery, invariant monitor at the callback seam, poisoned uninitialised memory, re-execution of a stratified scenario sample under python -O'),
 'C09': dict(engine='alias_sim', cat='exploration', ref='DESIGN.md 3.4',
   text='A simulated caller owns a pool of objects (TT-tensors, arrays in C/F/strided/negative-stride/read-only layouts, lists, dicts) and runs seeded histories of library calls over the whole exported API, re-feeding results as arguments and scribbling on its own objects between calls; a byte-snapshot reference model of the pool is compared after every operation and at every callback invocation; np.shares_memory between results and arguments.',
   note='Trusted: the call catalogue (cross-checked against inspect.signature), numpy.shares_memory. Undocumented / experimental keywords are excluded.',
   technique=TECH + ': stateful operation histories with caller-write (scribble) faults against a byte-snapshot reference model'),
 'C10': dict(engine='history_sim', cat='exploration', ref='DESIGN.md 3.5',
   text='1-4 simulated client threads run scripts of library calls; exactly one holds the baton and a seeded scheduler picks the next holder at every yield point (call entry/exit, every objective / sweep / basis callback, every random draw); the scheduler also reseeds / advances / restores the global NumPy generator, jumps the clock and pollutes the module-level default dictionaries; every result is compared bit for bit with the same call executed in isolation in a canonical world.',
   note='Trusted: result digests (bytes of every array). Overlapping calls of the same function that both rely on the same omitted default dictionary are out of scope (DESIGN 3.5).',
   technique=TECH + ': baton-passing client threads under a seeded scheduler, global-state perturbation faults (generator, clock, default dictionaries, poisoned uninitialised memory, injected LAPACK failures, rare extreme draws on the generator seam, warm versus fresh process), isolated-execution reference'),
 'C14': dict(engine='sampler_sim', cat='exploration', ref='DESIGN.md 3.6',
   text='The simulator supplies the generator object behind `seed` and thereby decides every draw: for each sampled tensor the sampler is steered through every multi-index and the product of the recorded conditional probabilities must equal entry/sum (resp. squared entry / sum of squares); adversarial draw schedules (extremes, ties, repeats) check shapes, bounds, uniqueness, Latin-hypercube counts and the sample_tt block layout; a chi-square run with a real PCG64 generator is the protocol-independent fallback.',
   note='Trusted: dense evaluation of the tensor, the SimGen generator stub honouring the numpy Generator contract. Exhaustive over multi-indices per sampled tensor (<= 300 entries); tensors are sampled.',
   technique=TECH + ': simulator-owned randomness source steering the sampler through every path of its conditional chain'),
}
NA = {
 'C01': 'pure function of cores and indices: no schedule, clock, fault, crash point or history for a simulator to control',
 'C02': 'pure function of the tensor, e, r and flags; add_many\'s periodic rounding is a synchronous loop counter, not background work',
 'C03': 'pure function of a dense array and (e, r); no seam',
 'C04': 'pure function of tensor and pivot; the in-place footprint of the single-step variants is a property of one call, not of a history',
 'C08': 'pure function of a matrix; the iteration limit is an argument, not a fault',
 'C11': 'quantified over inputs only (degenerate input families); nothing to schedule or inject',
 'C12': 'pure numerical identity; its callbacks (funcs / basis_func) are pure basis evaluations',
 'C13': 'pure function of the sample set (and seed); ANOVA.save/load is outside the statement',
 'C15': 'pure function of the tensor and k',
 'C16': 'pure function of the cores',
 'C17': 'pure finite enumeration over indices / pure function of the tensor',
 'C18': 'pure arithmetic on points and indices',
 'C19': 'pure function of constructor arguments (seeded determinism of the random constructors is covered under C10)',
 'C20': 'pure function of the structured samples (and svd_incomplete raises for every input on the pinned tree)',
}
def build(claimed):
    checks = []
    for pid in sorted(claimed):
        c = CLAIMED[pid]
        checks.append({
            'property_id': pid,
            'quick_cmd': './check %s --tier quick' % pid,
            'thorough_cmd': './check %s --tier thorough' % pid,
            'evidence_file': '/verif/evidence/%s.json' % pid,
            'replay_cmd_template': './check %s --replay {path}' % pid,
            'engine': c['engine'],
            'level_claimed': {'category': c['cat'], 'text': c['text'], 'design_ref': c['ref']},
            'level_note': c['note'],
            'technique': c['technique'],
        })
    na = [{'property_id': k, 'reason': v} for k, v in sorted(NA.items())]
    for pid in sorted(CLAIMED):
        if pid not in claimed:
            na.append({'property_id': pid, 'reason': 'simulation check designed (DESIGN.md section 3) but not yet built in this tree; not claimed until it runs'})
    engines = {}
    for pid in claimed:
        engines.setdefault(CLAIMED[pid]['engine'], []).append(pid)
    return {
        'version': 1,
        'setup_cmd': 'mkdir -p evidence replays && /venv/bin/python -c "import numpy, scipy, opt_einsum, sys; sys.path.insert(0, \'/repo\'); import teneva"',
        'hooks': {'guard': 'TENEVA_VERIF', 'enable': 'no hooks in /repo are needed: every seam is an existing argument or a module global rebound by the simulator (sim/boot.py); checks import the working tree of /repo directly (VERIF_REPO overrides)',
                  'baseline_off_cmd': BASE, 'source_commits': [], 'add_only': True},
        'engines': [{'name': k, 'path': 'engines/%s.py' % k, 'serves_properties': sorted(v),
                     'kind_free_text': 'deterministic simulation engine (seeded scenarios, fault injection at the seams, reference model oracles)'} for k, v in sorted(engines.items())],
        'checks': checks,
        'not_applicable': sorted(na, key=lambda x: x['property_id']),
        'notes': 'Technique family: deterministic simulation with fault injection only. VERIF_SEED selects the scenario block, VERIF_JOBS the worker count, VERIF_REPO the tree under test. Exit 0 = held (KNOWN-FINDING lines possible), 1 = VIOLATION line(s), 2 = harness problem (never with a VIOLATION line). fix: commits in /repo: 3d472ef (C07), 7db8fec (C14), d79de7b (C10), ff4fc2c (C10), b5ab173 (C09), f10739f (C14), 91e99ad (C06), 9730d06 (C10), 8ba37bf (C07), de04f21 (C10); one open known finding (C07, descent for lamb below the rounding level) is probed in every C07 run and printed as KNOWN-FINDING; see known_findings.json. A sample of the scenarios of every check is executed again by an interpreter started with -O (VERIF_PYFLAGS).',
    }
if __name__ == '__main__':
    import sys
    claimed = [a for a in sys.argv[1:]]
    json.dump(build(claimed), open(os.path.join(ROOT, 'MANIFEST.json'), 'w'), indent=1)
    print('MANIFEST.json written, claimed:', claimed)
