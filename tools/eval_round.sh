#!/bin/bash
# usage: tools/eval_round.sh <round> <key> [<key> ...]   (key = C05, C09a, ...; evaluates /tmp/wt<round>-<key>/_seeded/change*)
cd "$(dirname "$0")/.."
r=$1; shift
for k in "$@"; do
  p=${k:0:3}
  for dir in /tmp/wt$r-$k/_seeded/change*/ /tmp/wt$r-$k/_seeded/alt*/; do
    [ -f "$dir/patch.diff" ] || continue
    i=$(basename $dir | sed 's/change//')
    /venv/bin/python tools/seeded_eval.py $k-r$r-$i $dir $p 2>&1 | tail -2 | cut -c1-300
  done
done
