"""Create mutants/<name>.patch from (file, old, new) text replacements against VERIF_REPO (default /repo).
Usage from python: mk(name, [(file, old, new), ...], prop, note)"""
import difflib
import json
import os
import sys

ROOT = os.path.dirname(os.path.dirname(os.path.abspath(__file__)))
REPO = os.environ.get('VERIF_REPO', '/repo')


def mk(name, edits, prop, note):
    out = []
    by_file = {}
    for f, old, new in edits:
        by_file.setdefault(f, []).append((old, new))
    for f, lst in by_file.items():
        src = open(os.path.join(REPO, f)).read()
        dst = src
        for old, new in lst:
            if dst.count(old) != 1:
                raise SystemExit('%s: pattern occurs %d times in %s: %r' % (name, dst.count(old), f, old[:60]))
            dst = dst.replace(old, new)
        diff = difflib.unified_diff(src.splitlines(True), dst.splitlines(True), 'a/' + f, 'b/' + f)
        out.append(''.join(diff))
    with open(os.path.join(ROOT, 'mutants', name + '.patch'), 'w') as fh:
        fh.write(''.join(out))
    idx_path = os.path.join(ROOT, 'mutants', 'index.json')
    idx = json.load(open(idx_path)) if os.path.exists(idx_path) else {}
    idx[name] = {'property': prop, 'note': note}
    json.dump(idx, open(idx_path, 'w'), indent=1, sort_keys=True)
