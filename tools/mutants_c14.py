import sys, os
sys.path.insert(0, os.path.dirname(os.path.abspath(__file__)))
from mkmutant import mk
S = 'teneva/sample.py'
mk('C14-square-size1-assign', [(S, "            i_cur = im[di] = rand.choice(n, size=1, p=norms)[0]\n", "            i_cur = im[di] = rand.choice(n, size=1, p=norms)\n")], 'C14', 'the pinned defect: size-1 array assigned to an element (raises under NumPy >= 2)')
mk('C14-phi-next-replaced', [(S, "        p = np.einsum('ma,aib,b->mi', phi[i-1], Y[i], phi[i+1])\n", "        p = np.einsum('ma,aib,b->mi', phi[i-1], Y[i], phi[i+1] if i + 1 >= d - 1 else phi[i+2] * 0 + phi[i+1].mean())\n")], 'C14', 'right marginal vector replaced by its mean for inner modes (d >= 4 only)')
mk('C14-missing-square', [(S, "            norms = np.sum(qm**2, axis=1)\n            norms /= norms.sum()\n", "            norms = np.sum(np.abs(qm), axis=1) if di == d - 1 and d > 2 else np.sum(qm**2, axis=1)\n            norms /= norms.sum()\n")], 'C14', 'squared sampling uses |.| instead of the square in the last mode (d > 2)')
mk('C14-orth-wrong-end', [(S, "    Z, p = teneva.orthogonalize(Y, 0, use_stab=True)\n", "    Z, p = teneva.orthogonalize(Y, 0 if d < 3 else 1, use_stab=True)\n")], 'C14', 'orthogonalisation pivot at core 1 instead of core 0 for d >= 3: first-mode marginal wrong')
mk('C14-no-clip', [(S, "        p = np.einsum('ma,aib,b->mi', phi[i-1], Y[i], phi[i+1])\n        p = np.maximum(p, 0)\n", "        p = np.einsum('ma,aib,b->mi', phi[i-1], Y[i], phi[i+1])\n")], 'C14', 'negative rounding noise no longer clipped for mixed-sign cores')
mk('C14-lhs-replace', [(S, "        I2 = rand.choice(k, m-len(I1), replace=False)\n", "        I2 = rand.choice(k, m-len(I1))\n")], 'C14', 'LHS remainder drawn with replacement')
mk('C14-tt-offset', [(S, "        idx.append(idx[-1] + len(pnts))\n", "        idx.append(idx[-1] + len(pnts) - (1 if i == 1 and len(n) > 3 else 0))\n")], 'C14', 'off-by-one in the sample_tt block offsets for d > 3')
mk('C14-sample-bookkeeping', [(S, "        res[:, i] = ind\n        phi[i] = np.einsum('il,lij->ij', phi[i-1], c[:, ind])\n", "        res[:, i] = ind if i < 3 else ind[::-1]\n        phi[i] = np.einsum('il,lij->ij', phi[i-1], c[:, ind])\n")], 'C14', 'fourth column of the result written in reversed sample order')
mk('C14-unique-dedup-missing', [(S, "    if unique:\n        I = np.unique(I, axis=0)\n        if I.shape[0] < m:\n", "    if unique:\n        I = np.unique(I, axis=0) if m_fact <= 5 else I\n        if I.shape[0] < m:\n")], 'C14', 'after a restart (m_fact doubled) rows are no longer de-duplicated')
mk('C14-first-mode-unsert-scaled', [(S, "    p += unsert\n", "    p += unsert * 1.E+6 * (len(p) > 4)\n")], 'C14', 'noise floor 1e6 times larger for mode sizes > 4: zero entries get probability 1e-4/sum')
mk('C14-sample-cond-stale', [(S, "        phi[i] = np.einsum('il,lij->ij', phi[i-1], c[:, ind])\n", "        phi[i] = np.einsum('il,lij->ij', phi[i-1], c[:, ind if i < 2 else res[:, 0] % c.shape[1]])\n")], 'C14', 'left interface of the third mode on uses the wrong index column')

mk('C14-tt-float-shape', [(S, "    n = np.asanyarray(n, dtype=int)\n\n    def one_mode(sh1, sh2, rng):\n", "    def one_mode(sh1, sh2, rng):\n")], 'C14', 'the repaired defect: sample_tt raises TypeError for float-typed shapes')
