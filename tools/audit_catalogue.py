"""Systematic audit of catalog/api.py against the docstrings: for every exported function and every documented parameter, which of
the documented argument types (the "(int, float)", "(list, np.ndarray)", ... annotations in the Args section) and which keyword
parameters does the catalogue actually produce?  Prints the gaps."""
import collections, inspect, os, random, re, sys
sys.path.insert(0, os.path.dirname(os.path.dirname(os.path.abspath(__file__))))
from sim import boot
teneva = boot.boot()
import numpy as np
from catalog import api
from catalog.ctx import FreshCtx

def typename(v):
    if v is None: return 'None'
    if isinstance(v, bool): return 'bool'
    if isinstance(v, (int, np.integer)): return 'int'
    if isinstance(v, (float, np.floating)): return 'float'
    if isinstance(v, np.ndarray): return 'np.ndarray'
    if isinstance(v, np.random.Generator): return 'Generator'
    if isinstance(v, (list, tuple)): return 'list'
    if isinstance(v, dict): return 'dict'
    if isinstance(v, str): return 'str'
    if callable(v): return 'function'
    return type(v).__name__

seen = collections.defaultdict(lambda: collections.defaultdict(set))
rng = random.Random(7)
for name in sorted(api.ENTRIES):
    fn = getattr(teneva, name, None)
    if fn is None or inspect.isclass(fn): continue
    try: params = list(inspect.signature(fn).parameters)
    except Exception: continue
    for t in range(400):
        d = rng.choice([2, 3, 4]); n = [rng.choice([1, 2, 3, 4, 5]) for _ in range(d)]
        c = FreshCtx(rng.randrange(1 << 30), n, seed_mode=rng.choice(['int', 'generator']))
        try: call = api.build(name, c)
        except Exception: continue
        if call.fn is not fn: continue
        for p, v in zip(params, call.args): seen[name][p].add(typename(v))
        for k, v in call.kwargs.items(): seen[name][k].add(typename(v))

gaps = 0
for name in sorted(seen):
    fn = getattr(teneva, name)
    doc = fn.__doc__ or ''
    sig = inspect.signature(fn)
    m = re.search(r'Args:(.*?)(Returns:|Note:|$)', doc, flags=re.S)
    documented = {}
    if m:
        for pm in re.finditer(r'^\s{8}(\w+) \(([^)]*)\):', m.group(1), flags=re.M):
            documented[pm.group(1)] = [t.strip() for t in pm.group(2).split(',')]
    for p in sig.parameters:
        types = seen[name].get(p, set())
        doc_t = documented.get(p)
        if doc_t is None:
            continue
        missing = []
        for t in doc_t:
            t0 = {'function': 'function', 'dict': 'dict', 'str': 'str', 'bool': 'bool', 'int': 'int', 'float': 'float', 'list': 'list', 'np.ndarray': 'np.ndarray'}.get(t)
            if t0 and t0 not in types and not (t0 == 'float' and 'int' in types and False):
                missing.append(t)
        never = not types and sig.parameters[p].default is not inspect.Parameter.empty
        if missing or never:
            gaps += 1
            print('%-26s %-14s documented %-32s produced %-40s %s' % (name, p, doc_t, sorted(types), 'NEVER PASSED' if never else 'missing ' + str(missing)))
print('gaps:', gaps)
