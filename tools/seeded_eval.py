"""Confirm and evaluate a seeded change written by an independent sub-agent.

usage: seeded_eval.py <name> <source dir with patch.diff demo.py notes.md> <property id> [--all] [--tier quick|thorough] [--written-for-tree]

Steps (all in a scratch copy of /repo under /dev/shm, removed afterwards; /repo itself is not touched so that
background runs are not disturbed - equivalent to `git -C /repo apply` + checks + `git -C /repo checkout -- .`):
  1. demo.py exits 0 on the unmodified tree
  2. patch applies; demo.py exits non-zero with it
  3. the baseline test suite gives the same pass/fail set with it
  4. the owning check (or all checks with --all) is run against the patched tree
  5. /verif/seeded/<name>/ gets patch.diff, demo.py, notes.md and meta.json"""
import json
import os
import re
import shutil
import subprocess
import sys
import tempfile
import time

ROOT = os.path.dirname(os.path.dirname(os.path.abspath(__file__)))
REPO = os.environ.get('VERIF_REPO', '/repo')
PROPS = ['C05', 'C06', 'C07', 'C09', 'C10', 'C14']


def run(cmd, cwd=None, env=None, timeout=3600):
    p = subprocess.run(cmd, cwd=cwd, env=env, capture_output=True, text=True, timeout=timeout)
    return p.returncode, p.stdout, p.stderr


def tests(tree):
    env = dict(os.environ, PYTHONPATH=tree, OPENBLAS_NUM_THREADS='1')
    rc, out, err = run(['/venv/bin/python', '-m', 'pytest', '-q', '-p', 'no:cacheprovider', '--timeout=900', '-rf', 'test'], cwd=tree, env=env)
    failed = sorted(set(re.findall(r'^FAILED (\S+)', out, flags=re.M)))
    m = re.search(r'(\d+) passed', out)
    return {'passed': int(m.group(1)) if m else 0, 'failed': failed}


def main():
    name, src, prop = sys.argv[1:4]
    allp = '--all' in sys.argv
    _mp = os.path.join(ROOT, 'seeded', name, 'meta.json')
    if os.path.exists(_mp) and json.load(open(_mp)).get('eval_all'):
        allp = True          # detected by another check than its own: always evaluated against all of them
    tier = sys.argv[sys.argv.index('--tier') + 1] if '--tier' in sys.argv else 'quick'
    d = tempfile.mkdtemp(prefix='verif-seed-', dir='/dev/shm')
    meta = {'name': name, 'property': prop, 'source': src, 'evaluated_at_repo_commit':
            subprocess.run(['git', '-C', REPO, 'rev-parse', '--short', 'HEAD'], capture_output=True, text=True).stdout.strip()}
    try:
        tree = os.path.join(d, 'repo')
        subprocess.run(['rsync', '-a', '--exclude', '.git', '--exclude', '__pycache__', '--exclude', '_seeded', REPO + '/', tree + '/'], check=True)
        env = dict(os.environ, PYTHONPATH=tree, OPENBLAS_NUM_THREADS='1')
        demo = os.path.join(d, 'demo_run.py')
        with open(os.path.join(src, 'demo.py')) as fh:
            text = fh.read()
        # some demos assert that teneva is imported from the agent's own worktree: the evaluation runs them on a scratch copy instead
        text = '\n'.join(('pass  # ' + l.strip() if ('teneva.__file__' in l and l.strip().startswith('assert')) else l) for l in text.split('\n'))
        with open(demo, 'w') as fh:
            fh.write(text)
        rc0, o0, e0 = run(['/venv/bin/python', demo], cwd=d, env=env, timeout=600)
        meta['demo_exit_unmodified'] = rc0
        base = tests(tree)
        old_meta_path = os.path.join(ROOT, 'seeded', name, 'meta.json')
        written_for = json.load(open(old_meta_path)).get('written_for_commit') if os.path.exists(old_meta_path) else None
        written_for = written_for or (json.load(open(old_meta_path)).get('evaluated_at_repo_commit') if os.path.exists(old_meta_path) else None) \
            or meta['evaluated_at_repo_commit']
        meta['written_for_commit'] = written_for
        rc, o, e = run(['patch', '-p1', '-s', '--dry-run', '-d', tree, '-i', os.path.join(src, 'patch.diff')])
        old_meta = json.load(open(old_meta_path)) if os.path.exists(old_meta_path) else {}
        force = '--written-for-tree' in sys.argv or bool(old_meta.get('force_written_for_tree'))      # the change depends on code a later fix: commit removed: evaluate it on the tree it was written for
        if (rc != 0 or force) and written_for != meta['evaluated_at_repo_commit']:
            # the tree has moved on (fix: commits) and the patch no longer applies: evaluate it on the tree it was written for
            shutil.rmtree(tree)
            os.makedirs(tree)
            ar = subprocess.run('git -C %s archive %s | tar -x -C %s' % (REPO, written_for, tree), shell=True)
            meta['evaluated_on_tree'] = written_for
            rc0, o0, e0 = run(['/venv/bin/python', demo], cwd=d, env=env, timeout=600)
            meta['demo_exit_unmodified'] = rc0
            base = tests(tree)
        rc, o, e = run(['patch', '-p1', '-s', '-d', tree, '-i', os.path.join(src, 'patch.diff')])
        meta['patch_applies'] = (rc == 0)
        if rc != 0:
            meta['patch_error'] = (o + e)[-500:]
        rc1, o1, e1 = run(['/venv/bin/python', demo], cwd=d, env=env, timeout=600)
        meta['demo_exit_with_change'] = rc1
        meta['demo_tail_with_change'] = (o1 + e1).strip().splitlines()[-3:]
        withp = tests(tree)
        meta['tests_unmodified'] = base
        meta['tests_with_change'] = withp
        meta['tests_same'] = (base == withp)
        meta['confirmed'] = bool(rc0 == 0 and rc == 0 and rc1 != 0 and base == withp)
        checks = {}
        for p in (PROPS if allp else [prop]):
            env2 = dict(os.environ, VERIF_REPO=tree, VERIF_OUT=os.path.join(d, 'out'), VERIF_FIRST_VIOLATION=os.environ.get('VERIF_FIRST_VIOLATION', '1'))
            t0 = time.time()
            c = subprocess.run([os.path.join(ROOT, 'check'), p, '--tier', tier], capture_output=True, text=True, env=env2)
            lines = [l for l in c.stdout.splitlines() if l.startswith('VIOLATION')]
            orc = [l.strip() for l in c.stdout.splitlines() if l.strip().startswith('oracle=')]
            det = [l.strip()[:400] for l in c.stdout.splitlines() if l.strip().startswith('detail=')]
            checks[p] = {'cmd': './check %s --tier %s (VERIF_REPO=<scratch copy of /repo with the patch>)' % (p, tier), 'exit': c.returncode,
                         'violations': len(lines), 'oracles': orc, 'details': det[:4], 'wall_s': round(time.time() - t0, 1),
                         'tail': c.stdout.strip().splitlines()[-4:] if c.returncode == 2 else []}
        meta['checks'] = checks
        meta['detected_by'] = sorted(p for p, v in checks.items() if v['exit'] == 1 and v['violations'])
        dst = os.path.join(ROOT, 'seeded', name)
        os.makedirs(dst, exist_ok=True)
        for f in ('patch.diff', 'demo.py', 'notes.md'):
            if os.path.exists(os.path.join(src, f)) and os.path.abspath(src) != os.path.abspath(dst):
                shutil.copy(os.path.join(src, f), os.path.join(dst, f))
        old = {}
        mp = os.path.join(dst, 'meta.json')
        if os.path.exists(mp):
            old = json.load(open(mp))
        hist = old.get('history', [])
        if old.get('checks'):
            hist.append({'at_verif_commit': old.get('verif_commit'), 'detected_by': old.get('detected_by'), 'checks': old.get('checks')})
        meta['history'] = hist
        if allp:
            meta['eval_all'] = True
        for keep in ('verdict_note', 'force_written_for_tree'):
            if keep in old:
                meta[keep] = old[keep]
        if force:
            meta['force_written_for_tree'] = True
        meta['verif_commit'] = subprocess.run(['git', '-C', ROOT, 'rev-parse', '--short', 'HEAD'], capture_output=True, text=True).stdout.strip()
        if os.path.exists(os.path.join(src, 'notes.md')):
            meta['needs_to_manifest'] = open(os.path.join(src, 'notes.md')).read()[:1500]
        json.dump(meta, open(mp, 'w'), indent=1, sort_keys=True)
        print(json.dumps({k: meta[k] for k in ('name', 'confirmed', 'demo_exit_unmodified', 'demo_exit_with_change', 'tests_same', 'detected_by')}))
        for p, v in checks.items():
            print(' ', p, 'exit', v['exit'], v['oracles'][:5], v['tail'])
    finally:
        shutil.rmtree(d, ignore_errors=True)


if __name__ == '__main__':
    main()
