#!/bin/bash
# re-evaluate every seeded change against the current checks (scratch copies under /dev/shm; /repo untouched)
# usage: tools/seeded_all.sh [parallel streams, default 4]   - each stream runs its checks with VERIF_JOBS=4
cd "$(dirname "$0")/.."
P=${1:-4}
ls -d seeded/*/ | xargs -n1 basename | VERIF_JOBS=${VERIF_JOBS:-4} xargs -P "$P" -I{} bash -c \
  'n={}; p=${n:0:3}; /venv/bin/python tools/seeded_eval.py $n $(pwd)/seeded/$n $p 2>&1 | tail -2 | cut -c1-260 | tr "\n" " "; echo'
