#!/bin/bash
# re-evaluate every seeded change against the current checks (scratch copies; /repo untouched)
cd "$(dirname "$0")/.."
for d in seeded/*/; do
  n=$(basename $d); p=${n:0:3}
  /venv/bin/python tools/seeded_eval.py $n $(pwd)/seeded/$n $p 2>&1 | tail -2 | cut -c1-260
done
