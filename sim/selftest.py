"""Self-tests of the machinery itself.

selftest-mutants [--tests] [--tier quick] [name-substring ...]
    sensitivity: apply each mutants/*.patch to a scratch copy of the tree under test,
    run the owning check against it and expect a VIOLATION. Prints the kill matrix.
selftest-determinism [N]
    run N scenarios per engine twice, in fresh interpreters, at 1 and 16 workers and
    under two PYTHONHASHSEED values; all digests must agree.
selftest-evidence
    validate evidence/*.json and MANIFEST.json against the schemas (uses python3-vt jsonschema).
"""
import json
import os
import shutil
import subprocess
import sys
import tempfile
import time

from sim import boot

ROOT = boot.ROOT


def _scratch():
    base = '/dev/shm' if os.path.isdir('/dev/shm') else tempfile.gettempdir()
    return tempfile.mkdtemp(prefix='verif-mut-', dir=base)


def run_mutant(name, meta, tier, with_tests, props=None):
    d = _scratch()
    try:
        tree = os.path.join(d, 'repo')
        subprocess.run(['rsync', '-a', '--exclude', '.git', '--exclude', '__pycache__', boot.REPO + '/', tree + '/'], check=True)
        p = subprocess.run(['patch', '-p1', '-s', '-d', tree, '-i', os.path.join(ROOT, 'mutants', name + '.patch')],
                           capture_output=True, text=True)
        if p.returncode != 0:
            return {'name': name, 'status': 'PATCH-FAILED', 'out': p.stdout + p.stderr}
        res = {'name': name, 'property': meta['property']}
        if with_tests:
            env = dict(os.environ, PYTHONPATH=tree)
            t = subprocess.run(['/venv/bin/python', '-m', 'pytest', '-q', '-p', 'no:cacheprovider', '-x', '--timeout=900',
                                '--deselect', 'test/test_act_one.py::TestActOneInterface::test_norm_none',
                                '--deselect', 'test/test_act_one.py::TestActOneSum::test_base', 'test'],
                               cwd=tree, env=env, capture_output=True, text=True)
            res['tests_pass'] = (t.returncode == 0)
            res['tests_tail'] = t.stdout.strip().splitlines()[-1:] if t.stdout else []
        out = []
        killed_by = []
        for prop in (props or [meta['property']]):
            env = dict(os.environ, VERIF_REPO=tree, VERIF_OUT=os.path.join(d, 'out'))
            t0 = time.time()
            c = subprocess.run([os.path.join(ROOT, 'check'), prop, '--tier', tier], capture_output=True, text=True, env=env)
            lines = [l for l in c.stdout.splitlines() if l.startswith('VIOLATION')]
            orc = [l.strip() for l in c.stdout.splitlines() if l.strip().startswith('oracle=')]
            if c.returncode == 1 and lines:
                killed_by.append(prop)
            out.append({'prop': prop, 'exit': c.returncode, 'violations': len(lines), 'oracles': orc[:6],
                        'wall': round(time.time() - t0, 1),
                        'tail': c.stdout.strip().splitlines()[-3:] if c.returncode not in (0, 1) else []})
        res['checks'] = out
        res['status'] = 'KILLED' if killed_by else 'SURVIVED'
        return res
    finally:
        shutil.rmtree(d, ignore_errors=True)


def mutants(argv):
    with_tests = '--tests' in argv
    tier = 'quick'
    if '--tier' in argv:
        tier = argv[argv.index('--tier') + 1]
    allprops = '--all-props' in argv
    pats = [a for a in argv if not a.startswith('--') and a not in ('quick', 'thorough')]
    idx = json.load(open(os.path.join(ROOT, 'mutants', 'index.json')))
    names = [n for n in sorted(idx) if not pats or any(p in n for p in pats)]
    bad = 0
    rows = []
    for n in names:
        r = run_mutant(n, idx[n], tier, with_tests, props=None)
        rows.append(r)
        ok = r['status'] == 'KILLED'
        if not ok:
            bad += 1
        print('%-40s %-9s %s %s' % (n, r['status'], 'tests_pass=%s' % r.get('tests_pass') if with_tests else '',
                                    json.dumps(r.get('checks', r.get('out')))[:400]), flush=True)
    print('mutants: %d, killed: %d, survived/failed: %d' % (len(names), len(names) - bad, bad))
    with open(os.path.join(os.environ.get('VERIF_MATRIX_OUT') or os.path.join(ROOT, 'mutants'), 'last_matrix.json'), 'w') as f:
        json.dump(rows, f, indent=1, sort_keys=True)
    return 0 if bad == 0 else 3


def determinism(argv):
    n = int(argv[0]) if argv else 40
    props = ['C05', 'C06', 'C07', 'C09', 'C10', 'C14']
    from sim import kernel
    props = [p for p in props if os.path.exists(os.path.join(ROOT, kernel.ENGINES[p].replace('.', '/') + '.py'))]
    bad = 0
    code = ("import sys,os,json; sys.path.insert(0,%r); from sim import boot; boot.boot(); from sim import kernel; "
            "import concurrent.futures as cf, multiprocessing as mp; "
            "prop=sys.argv[1]; n=int(sys.argv[2]); jobs=int(sys.argv[3]); "
            "ex=cf.ProcessPoolExecutor(jobs, mp_context=mp.get_context('fork')); "
            "rs=list(ex.map(kernel._work, [(prop,'quick',int(os.environ.get('VERIF_SEED','0')),[i],set()) for i in range(n)])); "
            "print(json.dumps({str(r[0]['index']): [r[0]['digest'], r[0]['harness']] for r in rs}))") % ROOT
    for prop in props:
        outs = []
        for jobs, hs in ((1, '0'), (16, '0'), (16, '12345'), (5, '777')):
            env = dict(os.environ, PYTHONHASHSEED=hs, OPENBLAS_NUM_THREADS='1', PYTHONWARNINGS='ignore')
            p = subprocess.run(['/venv/bin/python', '-c', code, prop, str(n), str(jobs)], capture_output=True, text=True, env=env)
            if p.returncode != 0:
                print('HARNESS-ERROR', prop, p.stderr[-2000:])
                bad += 1
                outs.append(None)
                continue
            outs.append(json.loads(p.stdout.strip().splitlines()[-1]))
        ref = outs[0]
        mism = 0
        for o in outs[1:]:
            if o is None or ref is None:
                continue
            for k in ref:
                if ref[k] != o.get(k):
                    mism += 1
        empties = sum(1 for k in (ref or {}) if not ref[k][0])
        print('determinism %s: %d scenarios x 4 configurations (jobs 1/16/16/5, PYTHONHASHSEED 0/0/12345/777): mismatches=%d empty_digests=%d'
              % (prop, n, mism, empties), flush=True)
        if mism:
            print('HARNESS-NONDETERMINISM property=%s' % prop)
            bad += 1
    return 0 if bad == 0 else 2


def evidence(argv):
    code = ("import json,sys,glob,jsonschema; "
            "s=json.load(open('/root/.vp/EVIDENCE.schema.json')); m=json.load(open('/root/.vp/MANIFEST.schema.json')); "
            "jsonschema.validate(json.load(open(%r)), m); n=0\n"
            "for f in sorted(glob.glob(%r)):\n"
            "    jsonschema.validate(json.load(open(f)), s); n+=1; print('valid', f)\n"
            "print('manifest valid; evidence files valid:', n)") % (os.path.join(ROOT, 'MANIFEST.json'), os.path.join(ROOT, 'evidence', '*.json'))
    p = subprocess.run(['python3-vt', '-c', code], capture_output=True, text=True)
    print(p.stdout, p.stderr[-2000:])
    return p.returncode


def main(cmd, argv):
    if cmd == 'selftest-mutants':
        return mutants(argv)
    if cmd == 'selftest-determinism':
        return determinism(argv)
    if cmd == 'selftest-evidence':
        return evidence(argv)
    print(__doc__)
    return 2
