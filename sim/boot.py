"""Bootstrap: pins the environment, installs the virtual clock seam and imports the
tree under test (VERIF_REPO, default /repo). Must be imported before numpy/teneva."""
import os
import sys

ROOT = os.path.dirname(os.path.dirname(os.path.abspath(__file__)))
for _v in ('OPENBLAS_NUM_THREADS', 'OMP_NUM_THREADS', 'MKL_NUM_THREADS'):
    os.environ[_v] = '1'

REPO = os.path.abspath(os.environ.get('VERIF_REPO', '/repo'))


class SimAbort(BaseException):
    """Raised by a seam when a step cap is exceeded (BaseException: the library's
    own 'except Exception' can never swallow it)."""


class VirtualClock:
    """The only clock the library reads. Advanced by the simulator only. Its read
    counter doubles as a step counter for loops that have no other seam (als_func)."""
    cap = 0

    def __init__(self):
        self.t = 0.0
        self.reads = 0
        self.advanced = 0.0
        self.jumps = 0

    def now(self):
        self.reads += 1
        if self.cap and self.reads > self.cap:
            raise SimAbort('clock read cap %d exceeded (loop does not stop)' % self.cap)
        return self.t

    def advance(self, dt):
        self.t += dt
        if dt > 0:
            self.advanced += dt

    def jump(self, dt):
        self.t += dt
        self.jumps += 1
        self.advanced += abs(dt)

    def reset(self):
        self.t = 0.0
        self.reads = 0
        self.advanced = 0.0
        self.jumps = 0


CLOCK = VirtualClock()
_done = False
teneva = None


def boot():
    global _done, teneva
    if _done:
        return teneva
    import time
    if ROOT not in sys.path:
        sys.path.insert(0, ROOT)
    sys.path.insert(0, REPO)
    real = time.perf_counter
    time.perf_counter = CLOCK.now
    try:
        import numpy  # noqa
        import teneva as _t
    finally:
        time.perf_counter = real
    path = os.path.abspath(_t.__file__)
    if not path.startswith(REPO + os.sep):
        raise RuntimeError(f'teneva imported from {path}, expected under {REPO}')
    n = 0
    for name, mod in list(sys.modules.items()):
        if name.startswith('teneva.') and hasattr(mod, 'tpc'):
            mod.tpc = CLOCK.now
            n += 1
    CLOCK.modules_patched = n
    teneva = _t
    _done = True
    return teneva
