"""Digests, canonical JSON, small helpers. No PRNG and no real clock in here."""
import hashlib
import json
import struct

import numpy as np


from sim.boot import SimAbort  # noqa: E402,F401


class SimTimeout(BaseException):
    """Raised by the per-scenario wall-clock alarm in a worker."""


def _feed(h, obj):
    if isinstance(obj, np.ndarray):
        h.update(b'A')
        h.update(str(obj.dtype).encode())
        h.update(repr(obj.shape).encode())
        h.update(np.ascontiguousarray(obj).tobytes())
    elif isinstance(obj, (bool, np.bool_)):
        h.update(b'B1' if obj else b'B0')
    elif isinstance(obj, (int, np.integer)):
        h.update(b'I' + str(int(obj)).encode())
    elif isinstance(obj, (float, np.floating)):
        h.update(b'F' + struct.pack('<d', float(obj)))
    elif isinstance(obj, complex):
        h.update(b'C' + struct.pack('<dd', obj.real, obj.imag))
    elif obj is None:
        h.update(b'N')
    elif isinstance(obj, str):
        h.update(b'S' + obj.encode())
    elif isinstance(obj, bytes):
        h.update(b'Y' + obj)
    elif isinstance(obj, (list, tuple)):
        h.update(b'L' if isinstance(obj, list) else b'T')
        h.update(str(len(obj)).encode())
        for x in obj:
            _feed(h, x)
        h.update(b')')
    elif isinstance(obj, dict):
        h.update(b'D' + str(len(obj)).encode())
        for k in sorted(obj, key=repr):
            _feed(h, repr(k))
            _feed(h, obj[k])
        h.update(b'}')
    else:
        h.update(b'R' + type(obj).__name__.encode())
        h.update(repr(obj).encode())


def dig(*objs, n=16):
    h = hashlib.sha256()
    for o in objs:
        _feed(h, o)
    return h.hexdigest()[:n]


def cjson(obj):
    return json.dumps(obj, sort_keys=True, separators=(',', ':'))


def jsonable(o):
    """Convert numpy scalars / arrays inside a structure to plain JSON types."""
    if isinstance(o, dict):
        return {str(k): jsonable(v) for k, v in o.items()}
    if isinstance(o, (list, tuple)):
        return [jsonable(v) for v in o]
    if isinstance(o, np.ndarray):
        return jsonable(o.tolist())
    if isinstance(o, (np.integer,)):
        return int(o)
    if isinstance(o, (np.floating,)):
        return float(o)
    if isinstance(o, (np.bool_,)):
        return bool(o)
    if isinstance(o, float) and (o != o or o in (float('inf'), float('-inf'))):
        return repr(o)
    return o


def wellformed_tt(Y, n=None):
    """Return None if Y is a well-formed finite TT-tensor (of shape n), else a reason."""
    if not isinstance(Y, list):
        return f'result is {type(Y).__name__}, not a list of cores'
    if len(Y) == 0:
        return 'empty core list'
    r = 1
    for k, G in enumerate(Y):
        if not isinstance(G, np.ndarray):
            return f'core {k} is {type(G).__name__}'
        if G.ndim != 3:
            return f'core {k} has ndim {G.ndim}'
        if G.dtype.kind != 'f':
            return f'core {k} has dtype {G.dtype}'
        if G.shape[0] != r:
            return f'core {k} left rank {G.shape[0]} != previous right rank {r}'
        if n is not None and G.shape[1] != n[k]:
            return f'core {k} mode size {G.shape[1]} != {n[k]}'
        if not np.all(np.isfinite(G)):
            return f'core {k} has non-finite entries'
        r = G.shape[2]
    if r != 1:
        return f'last right rank {r} != 1'
    if n is not None and len(Y) != len(n):
        return f'd = {len(Y)} != {len(n)}'
    return None


def tt_full(Y):
    """Independent dense evaluation of a TT-tensor (plain matrix chain)."""
    Z = np.asarray(Y[0], dtype=float).reshape(-1, Y[0].shape[2])
    for G in Y[1:]:
        Z = Z @ G.reshape(G.shape[0], -1)
        Z = Z.reshape(-1, G.shape[2])
    return Z.reshape([G.shape[1] for G in Y])


def tt_copy(Y):
    return [np.array(G, copy=True) for G in Y]
