"""The seams the simulator owns: objective stub, sweep monitor, cache store, tensors
materialised from integers, stdout capture. Real code on the other side of every
seam: unmodified teneva."""
import contextlib
import io

import numpy as np

from sim.boot import CLOCK
from sim.util import SimAbort, tt_copy, tt_full


def gen(seed):
    """The only way numeric data is materialised: a private PCG64 stream."""
    return np.random.Generator(np.random.PCG64(int(seed)))


def make_tt(n, r, seed, dist='normal'):
    """TT-cores with all internal ranks r (also when a core cannot carry them)."""
    g = gen(seed)
    d = len(n)
    rr = [1] + ([r] * (d - 1) if isinstance(r, int) else list(r)) + [1]
    Y = []
    for k in range(d):
        shp = (rr[k], n[k], rr[k + 1])
        if dist == 'normal':
            Y.append(g.standard_normal(shp))
        elif dist == 'pos':
            Y.append(g.uniform(0.1, 1.0, shp))
        else:
            Y.append(g.uniform(-1.0, 1.0, shp))
    return Y


def make_table(n, target):
    """Dense table of the target tensor described by integers."""
    kind = target['kind']
    if kind == 'tt':
        return tt_full(make_tt(n, target['rho'], target['tseed']))
    if kind == 'rand':
        return gen(target['tseed']).standard_normal(n)
    if kind == 'sparse':
        g = gen(target['tseed'])
        return g.standard_normal(n) * (g.random(n) < target['density'])
    if kind == 'sum':
        idx = np.indices(n)
        return 1.0 + idx.sum(axis=0).astype(float)
    raise ValueError(kind)


def unfolding_ranks(T, tol=1e-10):
    """Numerical ranks of the d-1 unfoldings of a dense table and the worst
    conditioning sigma_1/sigma_rank (independent dense SVD)."""
    n = T.shape
    ranks, cond = [], 1.0
    for k in range(1, len(n)):
        M = T.reshape(int(np.prod(n[:k])), -1)
        s = np.linalg.svd(M, compute_uv=False)
        if s[0] == 0:
            ranks.append(0)
            continue
        rk = int(np.sum(s > tol * s[0]))
        ranks.append(rk)
        cond = max(cond, s[0] / s[rk - 1])
    return ranks, cond


class ObjectiveFailure(Exception):
    """What the simulated user function raises when it fails (crash of the objective service)."""


class Objective:
    """Stub service behind cross's `f`: exact table lookup, per-call virtual latency,
    `None` at a scheduled call; checks the index-domain and budget invariants on
    every call and logs every batch."""

    def __init__(self, table, events, none_at=None, m_max=None, latency=None,
                 call_cap=5000, ret_list=False, ret_f32=False, memo=False, raise_at=None):
        self.T = table
        self.n = table.shape
        self.events = events
        self.none_at = none_at
        self.m_max = m_max
        self.latency = latency or []
        self.call_cap = call_cap
        self.ret_list = ret_list
        self.ret_f32 = ret_f32
        self.memo = {} if memo else None     # a memoising service hands out the very same array when a batch recurs
        self.raise_at = raise_at
        self.raised = False
        self.calls = 0
        self.rows = 0                  # rows for which values were returned
        self.batches = []              # every batch received (copies)
        self.served = []               # batches for which values were returned
        self.bad = []                  # invariant violations observed inside the seam
        self.none_fired = False

    def __call__(self, I):
        self.calls += 1
        if self.calls > self.call_cap:
            raise SimAbort('objective call cap %d exceeded' % self.call_cap)
        d = len(self.n)
        ok = True
        if not isinstance(I, np.ndarray) or I.ndim != 2 or I.shape[1] != d:
            self.bad.append(('domain', 'call %d: batch is %s shape %s, expected 2-D ndarray of width %d'
                             % (self.calls, type(I).__name__, getattr(I, 'shape', None), d)))
            ok = False
        elif I.dtype.kind not in 'iu':
            self.bad.append(('domain', 'call %d: batch dtype %s is not integer' % (self.calls, I.dtype)))
            ok = False
        elif len(I) == 0:
            self.bad.append(('domain', 'call %d: empty batch' % self.calls))
            ok = False
        else:
            lo = I.min(axis=0)
            hi = I.max(axis=0)
            if (lo < 0).any() or (hi >= np.array(self.n)).any():
                self.bad.append(('domain', 'call %d: index out of bounds (min %s max %s shape %s)'
                                 % (self.calls, lo.tolist(), hi.tolist(), list(self.n))))
                ok = False
        if not ok:
            # cannot serve a malformed batch; report and stop this run
            raise SimAbort('malformed batch')
        Ic = np.array(I, copy=True)
        self.batches.append(Ic)
        if self.m_max is not None and self.rows + len(I) > self.m_max:
            self.bad.append(('budget', 'call %d: %d rows already evaluated + batch of %d > m=%d'
                             % (self.calls, self.rows, len(I), self.m_max)))
        lat = self.latency[(self.calls - 1) % len(self.latency)] if self.latency else 0.0
        CLOCK.advance(lat)
        if self.none_at is not None and self.calls == self.none_at:
            self.none_fired = True
            self.events.append(('f', self.calls, len(I), 'None'))
            return None
        if self.raise_at is not None and self.calls == self.raise_at:
            self.raised = True
            self.events.append(('f', self.calls, len(I), 'raise'))
            raise ObjectiveFailure('objective failed at call %d' % self.calls)
        self.rows += len(I)
        self.served.append(Ic)
        self.events.append(('f', self.calls, len(I), 'values'))
        if self.memo is not None:
            key = Ic.tobytes()
            if key not in self.memo:
                self.memo[key] = self.T[tuple(I.T)]
            return self.memo[key]
        y = self.T[tuple(I.T)]
        if self.ret_f32:
            return y.astype(np.float32)
        return y.tolist() if self.ret_list else y


class Monitor:
    """Sweep callback seam: snapshots tensor and info at every sweep, checks
    invariants at the callback instant, returns True at the scheduled sweep, may jump the clock."""

    def __init__(self, events, cb_at=None, sweep_cap=64, jumps=None, keep_tensors=True, hook=None, cont=None):
        self.events = events
        self.cb_at = cb_at
        self.sweep_cap = sweep_cap
        self.jumps = jumps or {}
        self.keep = keep_tensors
        self.snaps = []       # dict(sweep, Y, info, Yold, ranks)
        self.fired = False
        self.hook = hook
        self.cont = cont          # what the callback returns to say "go on": None, False, 0 or a truthy value that is not True

    def __call__(self, Y, info, opts):
        s = len(self.snaps) + 1
        if s > self.sweep_cap:
            raise SimAbort('sweep cap %d exceeded' % self.sweep_cap)
        snap = {'sweep': s, 'info': {k: v for k, v in info.items() if k != 't'},
                't': info.get('t')}
        try:
            snap['ranks'] = [G.shape[2] for G in Y]
        except Exception:
            snap['ranks'] = None
        if self.keep:
            snap['Y'] = tt_copy(Y)
            if isinstance(opts, dict) and opts.get('Yold') is not None:
                snap['Yold'] = tt_copy(opts['Yold'])
            if isinstance(opts, dict) and opts.get('Ir') is not None:
                snap['Ir'] = [None if a is None else np.array(a, copy=True) for a in opts['Ir']]
                snap['Ic'] = [None if a is None else np.array(a, copy=True) for a in opts['Ic']]
        self.snaps.append(snap)
        if self.hook is not None:
            self.hook(s, Y, info, opts)
        j = self.jumps.get(str(s))
        if j:
            CLOCK.jump(j)
        ret = (self.cb_at is not None and s == self.cb_at)
        if ret:
            self.fired = True
        self.events.append(('cb', s, bool(ret)))
        return True if ret else self.cont


@contextlib.contextmanager
def captured_stdout():
    import sys
    buf = io.StringIO()
    old = sys.stdout
    sys.stdout = buf
    try:
        yield buf
    finally:
        sys.stdout = old


_POISON_SIZES = list(range(16, 1025, 16)) + list(range(1536, 32769, 512))


def poison_heap(byte):
    """Fault: the content of uninitialised memory is adversarial. Blocks of many sizes are filled with `byte` and freed, so that
    numpy's small-block cache and malloc's free lists hand them to the next np.empty of the library (as a float64 0x5A.. is
    3.8e125, 0xA5.. is -1.2e-128; as an int64 both are far outside any tensor). A result that is correct whatever such memory
    holds is unaffected."""
    keep = []
    for nb in _POISON_SIZES:
        for _ in range(8 if nb <= 1024 else 2):
            a = np.empty(nb, dtype=np.uint8)
            a.fill(byte)
            keep.append(a)
    del keep
