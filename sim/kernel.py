"""Simulation kernel: seeded scenario generation, process pool, determinism sampling,
minimisation, replay files, known findings, evidence.

A run is engine.execute(scenario). A scenario is a JSON document produced by
engine.generate(random.Random(f"{seed}:{engine}:{prop}:{index}"), prop, tier).
Nothing in here draws from a PRNG other than the ones derived from VERIF_SEED,
and nothing in a scenario's execution reads a real clock.
"""
import concurrent.futures as cf
import faulthandler
import importlib
import json
import multiprocessing
import os
import random
import signal
import subprocess
import sys
import time
import traceback

from sim import boot
from sim.util import SimAbort, SimTimeout, cjson, dig, jsonable

ROOT = boot.ROOT
OUT = os.environ.get('VERIF_OUT') or ROOT      # replays/ and evidence/ live here
ENGINES = {
    'C05': 'engines.cross_sim',
    'C06': 'engines.cross_sim',
    'C07': 'engines.als_sim',
    'C09': 'engines.alias_sim',
    'C10': 'engines.history_sim',
    'C14': 'engines.sampler_sim',
}
SCEN_WALL_S = 120          # hard wall-clock alarm per scenario in a worker


def load_engine(prop):
    boot.boot()
    return importlib.import_module(ENGINES[prop])


def scen_rng(seed, engine, prop, index):
    return random.Random(f'{seed}:{engine.NAME}:{prop}:{index}')


def _alarm(signum, frame):
    raise SimTimeout()


def execute_guarded(engine, scenario, wall=SCEN_WALL_S):
    """Execute one scenario; classify what escapes.
    Returns the engine's result dict, with 'harness' set when the harness itself failed."""
    old = signal.signal(signal.SIGALRM, _alarm)
    signal.setitimer(signal.ITIMER_REAL, wall)
    try:
        res = engine.execute(scenario)
    except SimTimeout:
        res = {'violations': [], 'harness': 'HARNESS-TIMEOUT scenario exceeded %ds wall' % wall}
    except SimAbort as e:
        res = {'violations': [], 'harness': 'HARNESS-ERROR uncaught SimAbort: %s' % (e,)}
    except Exception:
        res = {'violations': [], 'harness': 'HARNESS-ERROR ' + traceback.format_exc()}
    finally:
        signal.setitimer(signal.ITIMER_REAL, 0)
        signal.signal(signal.SIGALRM, old)
    res.setdefault('runs', 1)
    res.setdefault('stats', {})
    res.setdefault('nontrivial', 0)
    res.setdefault('digest', '')
    res.setdefault('sim_time', 0.0)
    res.setdefault('interleavings', [])
    return res


_WORKER_HISTORY = []        # scenario indices this worker process has executed so far (process history, for C10)


def make_scenario(engine, prop, tier, seed, idx):
    scen = engine.generate(scen_rng(seed, engine, prop, idx), prop, tier)
    scen['property'] = prop
    scen['index'] = idx
    scen['seed'] = seed
    return scen


def fresh_digest(prop, tier, seed, idx, timeout=300):
    """Digest of one scenario executed as the first thing in a fresh interpreter."""
    env = dict(os.environ, VERIF_SEED=str(seed), PYTHONHASHSEED='4242')      # another interpreter, another hash salt
    p = subprocess.run([os.path.join(ROOT, 'check'), prop, '--tier', tier, '--fresh-digest', str(idx)],
                       capture_output=True, text=True, env=env, timeout=timeout)
    for line in p.stdout.splitlines():
        if line.startswith('FRESH-DIGEST '):
            return line.split()[1]
    return 'error:' + (p.stdout + p.stderr)[-300:]


def exec_with_flags(prop, tier, seed, indices, pyflags, timeout=1800):
    """Execute scenarios in a fresh interpreter started with other flags (e.g. -O: asserts stripped, __debug__ False)."""
    env = dict(os.environ, VERIF_SEED=str(seed), VERIF_PYFLAGS=pyflags)
    p = subprocess.run([os.path.join(ROOT, 'check'), prop, '--tier', tier, '--exec-indices', ','.join(str(i) for i in indices)],
                       capture_output=True, text=True, env=env, timeout=timeout)
    out = []
    for line in p.stdout.splitlines():
        if line.startswith('EXEC-RESULT '):
            out.append(json.loads(line[len('EXEC-RESULT '):]))
    if len(out) != len(indices):
        return None, (p.stdout + p.stderr)[-400:]
    return out, None


def env_compare_calls(prop, rn, o):
    """Per-call digests of one scenario from this interpreter (rn) and from one started with -O (o): first call that both accept
    and that returns different results, as a violation; None if there is none."""
    for key_, (d_o, x_o, ent_) in sorted((o.get('env_digests') or {}).items()):
        d_n, x_n, _ = (rn.get('env_digests') or {}).get(key_, (None, None, None))
        if d_n is None or d_n == d_o or 'AssertionError' in (x_o, x_n):
            continue
        return {'property': prop, 'oracle': 'environment-dependence',
                'detail': '[interpreter started with -O] %s (call %s) returns another result than in an interpreter started without -O (%s / %s)'
                          % (ent_, key_[:120], x_o or 'normal return', x_n or 'normal return')}
    return None


def _work(args):
    """Worker task: a list of scenario indices."""
    prop, tier, seed, indices, keep_samples = args[:5]
    want_hist = args[5] if len(args) > 5 else None
    want_env = args[6] if len(args) > 6 else None
    engine = load_engine(prop)
    faulthandler.enable()
    out = []
    for idx in indices:
        # the process history is recorded only for the few scenarios that may be compared with a fresh interpreter (memory!)
        hist_before = list(_WORKER_HISTORY) if (want_hist is not None and idx in want_hist) else None
        _WORKER_HISTORY.append(idx)
        scen = engine.generate(scen_rng(seed, engine, prop, idx), prop, tier)
        scen['property'] = prop
        scen['index'] = idx
        scen['seed'] = seed
        res = execute_guarded(engine, scen)
        item = {
            'index': idx,
            'sdig': dig(cjson(scen)),
            'digest': res['digest'],
            'runs': res['runs'],
            'stats': res['stats'],
            'nontrivial': res['nontrivial'],
            'sim_time': res['sim_time'],
            'interleavings': res['interleavings'],
            'violations': res['violations'],
            'harness': res.get('harness'),
            'history_before': hist_before,
        }
        if want_env is not None and idx in want_env:
            item['env_digests'] = res.get('env_digests')
        if res['violations'] or res.get('harness') or idx in keep_samples:
            item['scenario'] = scen
            item['sample'] = res.get('sample')
        out.append(item)
    return out


def _pool(jobs):
    ctx = multiprocessing.get_context('fork')
    return cf.ProcessPoolExecutor(max_workers=jobs, mp_context=ctx)


# ---------------------------------------------------------------- known findings

def load_known():
    path = os.path.join(ROOT, 'known_findings.json')
    try:
        with open(path) as f:
            return json.load(f).get('findings', [])
    except FileNotFoundError:
        return []


def match_known(viol, scenario, known):
    """An *open* entry matches on property, oracle and every key of its 'match' dict
    being a substring of the violation detail / equal to the scenario field."""
    for k in known:
        if k.get('status') != 'open' or k.get('property') != viol['property']:
            continue
        m = k.get('match', {})
        if m.get('oracle') not in (None, viol['oracle']):
            continue
        if m.get('detail_contains') and m['detail_contains'] not in viol.get('detail', ''):
            continue
        ok = True
        for key, val in m.get('scenario', {}).items():
            if scenario.get(key) != val:
                ok = False
        if ok:
            return k
    return None


# ---------------------------------------------------------------- shrinking

def same_class(res, viol):
    for v in res['violations']:
        if v['property'] == viol['property'] and v['oracle'] == viol['oracle']:
            return v
    return None


def shrink(engine, scenario, viol, max_exec=400, max_s=90):
    """Greedy minimisation: accept any engine-proposed simplification that keeps the
    same violation class (property + oracle). Deterministic (no PRNG)."""
    t0 = time.time()
    best, best_v = scenario, viol
    n_exec = 0
    progress = True
    while progress and n_exec < max_exec and time.time() - t0 < max_s:
        progress = False
        for cand in engine.shrink(best, best_v):
            if n_exec >= max_exec or time.time() - t0 > max_s:
                break
            n_exec += 1
            res = execute_guarded(engine, cand, wall=30)
            if res.get('harness'):
                continue
            v = same_class(res, viol)
            if v is not None:
                best, best_v = cand, v
                progress = True
                break
    return best, best_v, n_exec


def write_replay(prop, scenario, viol, minimised, n_exec):
    os.makedirs(os.path.join(OUT, 'replays'), exist_ok=True)
    scen = jsonable(scenario)
    name = '%s-%s-%s.json' % (prop, viol['oracle'].replace('/', '_').replace(' ', '_'),
                              dig(cjson(scen), n=10))
    path = os.path.join(OUT, 'replays', name)
    doc = {
        'property': prop,
        'expected': {'property': viol['property'], 'oracle': viol['oracle'],
                     'detail': viol.get('detail', '')},
        'minimised': minimised,
        'shrink_executions': n_exec,
        'scenario': scen,
    }
    with open(path, 'w') as f:
        json.dump(doc, f, indent=1, sort_keys=True)
    return path


def replay_fresh(prop, path):
    """Re-execute a replay file in a fresh interpreter; True if it fails identically."""
    env = dict(os.environ)
    env.pop('VERIF_PYFLAGS', None)
    p = subprocess.run([os.path.join(ROOT, 'check'), prop, '--replay', path],
                       capture_output=True, text=True, env=env, timeout=300)
    return p.returncode == 1 and ('VIOLATION property=%s' % prop) in p.stdout, p.stdout


def do_replay(prop, path):
    engine = load_engine(prop)
    with open(path) as f:
        doc = json.load(f)
    flags = doc['scenario'].get('pyflags')
    if doc['scenario'].get('env_compare'):
        # the recorded violation is a difference between two interpreters: execute the scenario here and under -O, compare per call
        sc0 = doc['scenario']
        scen_n = make_scenario(engine, prop, sc0['tier'], sc0['seed'], sc0['index'])
        rn = execute_guarded(engine, scen_n)
        out, err = exec_with_flags(prop, sc0['tier'], sc0['seed'], [sc0['index']], '-O')
        if out is None:
            print('HARNESS-ERROR python -O pass: %s' % err)
            return 2
        v = env_compare_calls(prop, rn, out[0])
        if v is None:
            print('REPLAY-PASSED property=%s file=%s (both interpreters agree on every call)' % (prop, path))
            return 0
        print('VIOLATION property=%s replay=%s' % (prop, path))
        print('  oracle=%s' % v['oracle'])
        print('  detail=%s' % v['detail'][:2000])
        print('  identical-to-recorded=%s' % (v['detail'] == doc['expected'].get('detail', '')))
        return 1
    if flags == '-O' and not sys.flags.optimize:
        # the recorded run needs an interpreter started with -O: re-execute this very command there
        p = subprocess.run([os.path.join(ROOT, 'check'), prop, '--replay', path], env=dict(os.environ, VERIF_PYFLAGS='-O'),
                           capture_output=True, text=True, timeout=600)
        sys.stdout.write(p.stdout)
        return p.returncode
    res = execute_guarded(engine, doc['scenario'])
    if res.get('harness'):
        print(res['harness'])
        return 2
    v = same_class(res, doc['expected'])
    if v is None:
        print('REPLAY-PASSED property=%s file=%s (expected oracle %s did not fire; %d other violations)'
              % (prop, path, doc['expected']['oracle'], len(res['violations'])))
        for o in res['violations'][:5]:
            print('  other:', o['property'], o['oracle'], o.get('detail', '')[:300])
        return 0
    print('VIOLATION property=%s replay=%s' % (prop, path))
    print('  oracle=%s' % v['oracle'])
    print('  detail=%s' % v.get('detail', '')[:2000])
    same = (v.get('detail', '') == doc['expected'].get('detail', ''))
    print('  identical-to-recorded=%s digest=%s' % (same, res['digest']))
    return 1


# ---------------------------------------------------------------- main check loop

def run_check(prop, tier):
    t_start = time.time()
    engine = load_engine(prop)
    seed = int(os.environ.get('VERIF_SEED', '0') or 0)
    jobs = int(os.environ.get('VERIF_JOBS', '0') or 0) or min(16, os.cpu_count() or 1)
    budget = engine.BUDGET[prop][tier]
    n_total = int(os.environ.get('VERIF_N', '0') or 0) or budget['n']
    max_s = float(os.environ.get('VERIF_BUDGET_S', '0') or 0) or budget['max_s']
    chunk = budget.get('chunk', 4)
    print('check property=%s tier=%s VERIF_SEED=%d jobs=%d scenarios<=%d budget_s=%d repo=%s engine=%s'
          % (prop, tier, seed, jobs, n_total, max_s, boot.REPO, engine.NAME), flush=True)

    keep = set(range(0, n_total, max(1, n_total // 4)))      # a few samples for the evidence
    k_fresh = 48 if tier == 'quick' else 400
    want_hist = set(range(3, n_total, max(1, n_total // (4 * k_fresh)))) if getattr(engine, 'PROCESS_HISTORY', False) else None
    opt_pick = None
    if hasattr(engine, 'classify') and os.environ.get('VERIF_NO_OPT', '') != '1':
        # the sample that is executed again under python -O, stratified by the engine's scenario classes (known before the run, so
        # that the workers can keep the per-call digests of exactly these scenarios)
        k_opt0 = min(getattr(engine, 'OPT_SAMPLE', {}).get(tier, 64 if tier == 'quick' else 640), max(8, n_total // 3))
        groups_o = {}
        for i in range(min(n_total, 6000)):
            groups_o.setdefault(engine.classify(make_scenario(engine, prop, tier, seed, i)), []).append(i)
        lists_o = [groups_o[k] for k in sorted(groups_o)]
        opt_pick, r_ = [], 0
        while len(opt_pick) < k_opt0 and any(r_ < len(l) for l in lists_o):
            opt_pick.extend(l[r_] for l in lists_o if r_ < len(l))
            r_ += 1
        opt_pick = set(opt_pick[:k_opt0])
    det_step = max(2, min(50, n_total // 8))
    det_idx = [i for i in range(n_total) if i % det_step == 1]     # >= 2 % determinism re-runs (in other worker tasks)
    results = {}
    redo = {}
    harness = []
    stats = {}
    inter = set()
    samples = []
    done_scen = 0
    pool = _pool(jobs)
    try:
        # blocks, so that a time budget can stop the sweep between blocks
        block = max(jobs * chunk * 4, 64)
        pos = 0
        while pos < n_total and time.time() - t_start < max_s:
            idxs = list(range(pos, min(n_total, pos + block)))
            pos += len(idxs)
            tasks = [(prop, tier, seed, idxs[i:i + chunk], keep, want_hist, opt_pick) for i in range(0, len(idxs), chunk)]
            dets = [i for i in idxs if i in set(det_idx)]
            # determinism re-runs go into separate tasks (hence, in general, other worker processes)
            tasks += [(prop, tier, seed, [i], set()) for i in dets]
            futs = [pool.submit(_work, t) for t in tasks]
            n_first = len(tasks) - len(dets)
            for k, fu in enumerate(futs):
                try:
                    items = fu.result(timeout=SCEN_WALL_S * chunk + 60)
                except cf.TimeoutError:
                    harness.append('HARNESS-TIMEOUT worker task did not return')
                    raise
                for it in items:
                    if k < n_first:
                        # fold the bulky parts at once (millions of scenarios in the thorough tier)
                        for kk, vv in it.pop('stats').items():
                            stats[kk] = stats.get(kk, 0) + vv
                        inter.update(it.pop('interleavings'))
                        if it.get('sample') is not None and len(samples) < 4:
                            samples.append(it['sample'])
                        it.pop('sample', None)
                        if not (it['violations'] or it['harness']):
                            it.pop('scenario', None)
                        results[it['index']] = it
                        done_scen += 1
                    else:
                        redo[it['index']] = it
            if os.environ.get('VERIF_FIRST_VIOLATION') == '1' and any(results[i]['violations'] for i in idxs if i in results):
                break           # used when a modified tree is evaluated (tools/seeded_eval.py): the first block with a violation settles it
    except (cf.TimeoutError, cf.process.BrokenProcessPool) as e:
        harness.append('HARNESS-ERROR pool failure: %r' % (e,))
        for p in list(getattr(pool, '_processes', {}).values()):
            try:
                p.kill()
            except Exception:
                pass
    finally:
        pool.shutdown(wait=False, cancel_futures=True)

    # -------- aggregate
    runs = 0
    nontrivial = 0
    sim_time = 0.0
    seen_sdig = set()
    viols = []
    for idx in sorted(results):
        it = results[idx]
        if it['harness']:
            harness.append('scenario %d: %s' % (idx, it['harness']))
        runs += it['runs']
        sim_time += it['sim_time']
        if it['sdig'] not in seen_sdig:
            seen_sdig.add(it['sdig'])
            nontrivial += it['nontrivial']
        for v in it['violations']:
            viols.append((idx, v))
    nondet = []
    for idx, it in redo.items():
        if idx in results and results[idx]['digest'] != it['digest']:
            nondet.append(idx)
    fresh_checked = 0
    if getattr(engine, 'PROCESS_HISTORY', False) and not harness:
        # results must not depend on what the process did before: the digest obtained in a worker that had already executed
        # other scenarios is compared with the digest of the same scenario run first in a fresh interpreter
        cand = [i for i in sorted(results) if results[i]['history_before'] and not results[i]['harness'] and not results[i]['violations']]
        step = max(1, len(cand) // k_fresh)
        pick = (nondet + cand[::step])[:k_fresh + len(nondet)]
        import concurrent.futures as _cf
        with _cf.ThreadPoolExecutor(max_workers=jobs) as tp:
            futs = {i: tp.submit(fresh_digest, prop, tier, seed, i) for i in pick}
            for i, fu in futs.items():
                fd = fu.result()
                fresh_checked += 1
                if fd.startswith('error:'):
                    harness.append('HARNESS-ERROR fresh digest of scenario %d: %s' % (i, fd))
                elif fd != results[i]['digest']:
                    scen_ph = {'engine': engine.NAME, 'mode': 'process-history', 'property': prop, 'seed': seed, 'tier': tier,
                               'prefix': results[i]['history_before'] or [], 'target': i}
                    results[i]['scenario'] = scen_ph
                    viols.append((i, {'property': prop, 'oracle': 'process-history-dependence',
                                      'detail': 'scenario %d gives digest %s when it is the first thing a fresh interpreter does, but %s in a process that had '
                                                'executed %d other scenarios before' % (i, fd, results[i]['digest'], len(results[i]['history_before'] or []))}))
        nondet = [i for i in nondet if i not in pick]
        stats['fault.process_history_before_scenario'] = fresh_checked
    if nondet:
        harness.append('HARNESS-NONDETERMINISM scenarios %s gave different digests in two workers' % nondet[:10])

    # -------- the process environment is part of the world: a sample of the scenarios is executed again by an interpreter started
    # with -O (assert statements stripped, __debug__ False); the oracles are the same, the property must hold there as well
    opt_checked = 0
    if not harness and os.environ.get('VERIF_NO_OPT', '') != '1':
        k_opt = min(getattr(engine, 'OPT_SAMPLE', {}).get(tier, 64 if tier == 'quick' else 640), max(8, len(results) // 8))
        done_idx = sorted(results)
        if opt_pick is not None:
            pick = sorted(i for i in opt_pick if i in results)
        else:
            pick = done_idx[2::max(1, len(done_idx) // k_opt)][:k_opt]
        parts = [pick[i::jobs] for i in range(jobs) if pick[i::jobs]]
        import concurrent.futures as _cf
        with _cf.ThreadPoolExecutor(max_workers=jobs) as tp:
            futs = [tp.submit(exec_with_flags, prop, tier, seed, part, '-O') for part in parts]
            for fu in futs:
                out, err = fu.result()
                if out is None:
                    harness.append('HARNESS-ERROR python -O pass: %s' % err)
                    continue
                for o in out:
                    opt_checked += 1
                    if o.get('harness'):
                        harness.append('python -O pass, scenario %d: %s' % (o['index'], o['harness']))
                    if not o.get('optimize'):
                        harness.append('HARNESS-ERROR python -O pass ran without -O')
                    if o.get('env_digests') and not results[o['index']]['violations'] and not o['violations']:
                        # engines that report per-call result digests: a call that is accepted by both interpreters returns the same
                        # result in both (an AssertionError on one side is argument validation the other side does not have)
                        scen_n = make_scenario(engine, prop, tier, seed, o['index'])
                        rn = {'env_digests': results[o['index']].get('env_digests')}
                        if rn['env_digests'] is None:
                            rn = execute_guarded(engine, scen_n)
                        v_env = env_compare_calls(prop, rn, o)
                        if v_env is not None:
                            results[o['index']]['scenario'] = dict(scen_n, pyflags='-O', env_compare=True, tier=tier)
                            viols.append((o['index'], v_env))
                    for v in o['violations']:
                        if results[o['index']]['violations']:
                            continue            # already reported by the ordinary pass
                        scen_o = make_scenario(engine, prop, tier, seed, o['index'])
                        scen_o['pyflags'] = '-O'
                        results[o['index']]['scenario'] = scen_o
                        v = dict(v, detail='[interpreter started with -O] ' + v.get('detail', ''))
                        viols.append((o['index'], v))
        stats['fault.interpreter_started_with_O'] = opt_checked

    # -------- violations: group by (property, oracle), minimise, write replay, verify
    known = load_known()
    # every open finding names the input that fails: it is executed in every run, so that the KNOWN-FINDING line is backed by an
    # observation of this very run (and disappears by itself once the library is repaired)
    for kn, kf in enumerate(known):
        if kf.get('status') == 'open' and kf.get('property') == prop and kf.get('probe_scenario'):
            pres = execute_guarded(engine, dict(kf['probe_scenario']))
            if pres.get('harness'):
                harness.append('known-finding probe: %s' % pres['harness'])
            results[-1 - kn] = {'scenario': dict(kf['probe_scenario']), 'violations': pres['violations']}
            for v in pres['violations']:
                viols.append((-1 - kn, v))
            stats['probe.known_finding_probes'] = stats.get('probe.known_finding_probes', 0) + 1
    groups = {}
    for idx, v in viols:
        if v['property'] != prop:
            continue
        groups.setdefault((v['property'], v['oracle']), []).append((idx, v))
    n_viol = 0
    known_lines = []
    for key in sorted(groups):
        idx, v = groups[key][0]
        scen = results[idx]['scenario']
        if scen.get('pyflags'):
            small, small_v, n_exec = scen, v, 0           # needs another interpreter: not minimised in-process
        else:
            small, small_v, n_exec = shrink(engine, scen, v,
                                            max_s=60 if tier == 'quick' else 180)
        k = match_known(small_v, small, known)
        if k is not None:
            known_lines.append('KNOWN-FINDING: property=%s %s' % (prop, k.get('what', '')))
            continue
        path = write_replay(prop, small, small_v, not scen.get('pyflags'), n_exec)
        ok, out = replay_fresh(prop, path)
        if not ok:
            # fall back to the un-minimised scenario
            path = write_replay(prop, scen, v, False, 0)
            ok, out = replay_fresh(prop, path)
        n_viol += 1
        print('VIOLATION property=%s replay=%s' % (prop, path))
        print('  oracle=%s occurrences=%d first_scenario_index=%d replay_reproduces=%s'
              % (key[1], len(groups[key]), idx, ok))
        print('  detail=%s' % small_v.get('detail', '')[:1500], flush=True)
    for line in sorted(set(known_lines)):
        print(line)

    wall = time.time() - t_start
    # -------- evidence
    faults = {k[6:]: v for k, v in sorted(stats.items()) if k.startswith('fault.')}
    probes = {k[6:]: v for k, v in sorted(stats.items()) if k.startswith('probe.')}
    other = {k: v for k, v in sorted(stats.items()) if not k.startswith(('fault.', 'probe.'))}
    stuck = [k for k in engine.EXPECTED_PROBES.get(prop, []) if probes.get(k, 0) == 0]
    ev = {
        'property_id': prop,
        'tier': tier,
        'seed': seed,
        'level': engine.LEVEL[prop],
        'coverage': {
            'evaluations': int(runs),
            'distinct_nontrivial': int(nontrivial),
            'rule': engine.RULE[prop],
            'samples': jsonable(samples) or [{'note': 'no sample kept'}],
            'scenarios': done_scen,
            'scenario_seeds': 'random.Random("%d:%s:%s:<index>") for index in 0..%d (one derived PRNG seed per scenario)' % (seed, engine.NAME, prop, max(done_scen - 1, 0)),
            'seeds_per_hour': int(done_scen / max(wall, 1e-9) * 3600),
            'scenarios_planned': n_total,
            'exhaustive': False,
            'faults_fired': faults,
            'probes': probes,
            'probes_stuck_at_zero': stuck,
            'counters': other,
            'distinct_interleavings': len(inter),
            'simulated_time_s': round(sim_time, 3),
            'runs_per_hour': int(runs / max(wall, 1e-9) * 3600),
            'scenarios_per_hour': int(done_scen / max(wall, 1e-9) * 3600),
            'determinism_reruns': len(redo),
            'determinism_mismatches': len(nondet),
            'components': engine.COMPONENTS,
            'known_findings_reported': sorted(set(known_lines)),
            'harness_problems': harness[:10],
            'workers': jobs,
            'repo': boot.REPO,
        },
        'assumptions': engine.ASSUMPTIONS.get(prop, []),
        'wall_s': round(wall, 2),
        'violations': n_viol,
    }
    if hasattr(engine, 'summarise'):
        ev['coverage'].update(jsonable(engine.summarise(stats)))
    os.makedirs(os.path.join(OUT, 'evidence'), exist_ok=True)
    with open(os.path.join(OUT, 'evidence', prop + '.json'), 'w') as f:
        json.dump(ev, f, indent=1, sort_keys=True)
    print('summary property=%s scenarios=%d runs=%d distinct_nontrivial=%d violations=%d '
          'determinism=%d/%d wall=%.1fs runs/h=%d'
          % (prop, done_scen, runs, nontrivial, n_viol, len(redo) - len(nondet), len(redo), wall,
             ev['coverage']['runs_per_hour']))
    print('faults_fired=%s' % cjson(faults))
    print('probes=%s' % cjson(probes))
    if stuck:
        print('SELF-ASSESSMENT: probes stuck at zero: %s' % stuck)
    if n_viol:
        return 1
    if harness:
        for h in harness[:10]:
            print(h)
        return 2
    return 0
