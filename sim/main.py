"""Entry point of ./check (never imported by anything else)."""
import argparse
import os
import sys

sys.path.insert(0, os.path.dirname(os.path.dirname(os.path.abspath(__file__))))
from sim import boot  # noqa: E402

boot.boot()
from sim import kernel  # noqa: E402


def main():
    if len(sys.argv) >= 2 and sys.argv[1].startswith('selftest'):
        from sim import selftest
        return selftest.main(sys.argv[1], sys.argv[2:])
    ap = argparse.ArgumentParser()
    ap.add_argument('prop')
    ap.add_argument('--tier', default=os.environ.get('VERIF_TIER', 'quick'), choices=['quick', 'thorough'])
    ap.add_argument('--replay')
    ap.add_argument('--fresh-digest', type=int)
    ap.add_argument('--exec-indices')
    a = ap.parse_args()
    if a.prop not in kernel.ENGINES:
        print('unknown property', a.prop)
        return 2
    if a.fresh_digest is not None:
        engine = kernel.load_engine(a.prop)
        seed = int(os.environ.get('VERIF_SEED', '0') or 0)
        res = kernel.execute_guarded(engine, kernel.make_scenario(engine, a.prop, a.tier, seed, a.fresh_digest))
        print('FRESH-DIGEST', res['digest'] if not res.get('harness') else 'error:' + str(res.get('harness'))[:200])
        return 0
    if a.exec_indices is not None:
        # used by the kernel to execute scenarios in an interpreter started with other flags (python -O)
        import json
        engine = kernel.load_engine(a.prop)
        seed = int(os.environ.get('VERIF_SEED', '0') or 0)
        for idx in [int(x) for x in a.exec_indices.split(',') if x]:
            res = kernel.execute_guarded(engine, kernel.make_scenario(engine, a.prop, a.tier, seed, idx))
            print('EXEC-RESULT ' + json.dumps({'index': idx, 'digest': res['digest'], 'harness': res.get('harness'), 'optimize': sys.flags.optimize, 'env_digests': res.get('env_digests'),
                                               'violations': [{'property': v['property'], 'oracle': v['oracle'], 'detail': v.get('detail', '')[:2000]}
                                                              for v in res['violations']]}), flush=True)
        return 0
    if a.replay:
        return kernel.do_replay(a.prop, a.replay)
    return kernel.run_check(a.prop, a.tier)


if __name__ == '__main__':
    sys.exit(main())
