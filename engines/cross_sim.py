"""cross_sim: teneva.cross under a simulator that owns its seams (objective, sweep
callback, evaluation budget, cache dictionary, clock).

C06  every interruption point of a scenario is enumerated against the fault-free twin
     run and an executable reference model of the budget / cache / stop protocol.
C05  incarnation sequences: crash at a scheduled point, restart with only the cache
     dictionary surviving; refinement against the uncached fault-free twin.
"""
import copy

import numpy as np

from sim import boot
from sim.boot import CLOCK
from sim.util import SimAbort, cjson, dig, tt_copy, tt_full, wellformed_tt
from sim.world import Monitor, Objective, ObjectiveFailure, captured_stdout, gen, make_table, make_tt, unfolding_ranks
import collections

teneva = boot.boot()

NAME = 'cross_sim'
LEVEL = {'C05': 'exploration', 'C06': 'fault_enumeration'}
RULE = {
    'C06': 'scenario = seeded configuration of cross (shape, target table, start tensor, rank growth, '
           'maxvol parameters, stop arguments, validation set, cache kind); per scenario the fault-free '
           'twin is recorded and every interruption point is run: None at objective call k for every k, '
           'budget m for every m in 1..M+1 (or every behaviour class T_j-1,T_j,T_j+1 when M is large), '
           'callback True at every sweep, each with no cache / empty cache / pre-populated cache, plus '
           'seeded fault combinations and all 32 stop-argument subsets. evaluations = simulated cross calls; '
           'a case is non-trivial when a fault fired after at least one served objective call (or a stop '
           'criterion ended a run that evaluated something); cases are distinct (scenario digest, fault plan) pairs.',
    'C05': 'scenario = seeded configuration of cross plus an incarnation sequence: up to 4 crashes (None at a '
           'call, budget, callback cancel) after each of which only the cache dictionary survives, then a '
           'fault-free incarnation; evaluations = simulated cross calls (incarnations + twins); a case is '
           'non-trivial when a cached incarnation served at least one request from the cache and evaluated at '
           'least one index (transparency) or reached the rank condition (reproduction); distinct = distinct '
           '(scenario digest, incarnation) pairs.',
}
COMPONENTS = {
    'real': ['teneva.cross and everything it calls (maxvol, maxvol_rect, accuracy, accuracy_on_data, erank, copy), numpy, scipy'],
    'stub': ['objective f (exact table lookup, virtual latency, scheduled None)', 'sweep callback (monitor, scheduled cancel, clock jumps)',
             'cache store (dict, pre-populated / surviving across incarnations)', 'clock (virtual perf_counter)'],
}
ASSUMPTIONS = {
    'C06': ['objective is a deterministic table lookup; shapes bounded by d<=5, n_k<=6, start ranks<=3, <=4 sweeps',
            'reference model is driven by the fault-free twin of the same tree (prefix property); if the prefix property '
            'fails the model-based sub-oracles are skipped and counted, direct oracles still apply'],
    'C05': ['targets are generic (continuous random cores) with unfolding conditioning <= 1e5 for the reproduction clause',
            'reproduction tolerance 1e-8 relative Frobenius (worst observed on the unchanged tree < 1e-13)'],
}
EXPECTED_PROBES = {
    'C06': ['interrupted_nonsquare_R', 'budget_inside_first_batch', 'conv_fired', 'maxvol_iteration_limit',
            'stop_m', 'stop_func', 'stop_cb', 'stop_e', 'stop_e_vld', 'stop_nswp', 'pre_iteration_stop',
            'valueerror_rejected', 'long_run_over_100_sweeps', 'unreached_e_vld_twin', 'unobserved_interruption_twin'],
    'C05': ['restart_all_from_cache_conv', 'reproduction_checked', 'transparency_bitwise', 'foreign_cache', 'unobserved_run', 'positional_call',
            'crash_none', 'crash_m', 'crash_cb', 'crash_raise', 'liveness_checked', 'reproduction_checked_at_interruption'],
}
BUDGET = {
    'C06': {'quick': {'n': 128, 'max_s': 150, 'chunk': 1}, 'thorough': {'n': 4000, 'max_s': 3000, 'chunk': 1}},
    'C05': {'quick': {'n': 6400, 'max_s': 150, 'chunk': 20}, 'thorough': {'n': 250000, 'max_s': 3000, 'chunk': 25}},
}
DOCUMENTED_STOPS = ('nswp', 'm', 'e', 'e_vld', 'cb', 'func', 'conv')

# probe only: count maxvol calls that ended on their iteration limit (behaviour unchanged)
MAXVOL_LIMIT = [0]
_maxvol_orig = teneva.maxvol


def _maxvol_probe(A, e=1.05, k=100):
    I, B = _maxvol_orig(A, e, k)
    try:
        if np.abs(B).max() > e:
            MAXVOL_LIMIT[0] += 1
    except Exception:
        pass
    return I, B


if getattr(teneva.maxvol, '__name__', '') != '_maxvol_probe':
    import sys as _sys
    teneva.maxvol = _maxvol_probe
    _mod = _sys.modules.get('teneva.maxvol')
    if _mod is not None and getattr(_mod, 'maxvol', None) is _maxvol_orig:
        _mod.maxvol = _maxvol_probe          # maxvol_rect's inner call


# ------------------------------------------------------------------ scenario generation

def gen_config(rng, small=False):
    d = rng.choice([2, 2, 3, 3, 3, 4, 4, 5])
    if small:
        d = rng.choice([2, 3, 3, 4])
    n = [rng.choice([1, 2, 2, 3, 3, 4, 4, 5, 6]) for _ in range(d)]
    if all(k == 1 for k in n):
        n[rng.randrange(d)] = 3
    kind = rng.choice(['tt', 'tt', 'tt', 'rand', 'sum'])
    if not small and rng.random() < 0.1:
        kind = 'sparse'           # a table with few (or no) non-zero entries: requested blocks may vanish identically
    target = {'kind': kind, 'tseed': rng.randrange(1 << 30)}
    if kind == 'sparse':
        target['density'] = rng.choice([0.0, 0.05, 0.2, 0.5])
    if kind == 'tt':
        target['rho'] = rng.randint(1, 3)
    if rng.random() < 0.12:
        target['scale'] = rng.choice([1e-70, 1e-70, 1e-30, 1e+40])      # the magnitude of the tensor is arbitrary
    dr_min = rng.choice([0, 0, 1, 1, 1, 2])
    dr_max = dr_min + rng.choice([0, 0, 1, 2])
    cfg = {
        'n': n,
        'target': target,
        'y0': {'r': rng.randint(1, 3), 'seed': rng.randrange(1 << 30), 'kind': 'generic' if small else rng.choice(['generic', 'generic', 'generic', 'doubled', 'squared', 'warm'])},
        'dr_min': dr_min,
        'dr_max': dr_max,
        'tau': rng.choice([1.01, 1.1, 1.1, 1.5, 2.0]),
        'tau0': rng.choice([1.0, 1.01, 1.05, 1.05, 1.5]),
        'k0': rng.choice([1, 1, 2, 10, 100, 100]),
        'nswp': rng.choice([0, 1, 1, 2, 2, 3, 4]),
        'e': rng.choice([None, None, None, 1e-12, 1e-3, 0.5]),
        'vld': None,
        'e_vld': None,
        'm_cache_scale': rng.choice([1, 5, 5, 5, 10 ** 9]),
        'log': rng.random() < 0.1,
        'latency': [round(rng.choice([0.0, 1e-3, 0.5, 3600.0]) * rng.random(), 6) for _ in range(rng.randint(0, 3))],
        'jumps': {str(rng.randint(1, 4)): rng.choice([-1e6, 1e3, 86400.0])} if rng.random() < 0.3 else {},
        'ret_list': rng.random() < 0.15,
        'ret': rng.choice(['f64', 'f64', 'f64', 'f64', 'list', 'f32']),     # what the objective hands back
        'memo': rng.random() < 0.2,                   # the objective memoises: the same array object comes back when a batch recurs
        'cb_cont': rng.choice([None, None, False, 0, 1, 0.5, 'go on']),  # how the callback says "go on": only `True` itself stops (truthy values that are not True since round 21)
        'cache_type': rng.choice(['dict', 'dict', 'defaultdict', 'ordered']),
    }
    if rng.random() < 0.4:
        cfg['vld'] = {'m': rng.randint(1, 12), 'seed': rng.randrange(1 << 30), 'neg': rng.random() < 0.15}
        cfg['e_vld'] = rng.choice([None, 1e-10, 1e-2, 10.0])
    return cfg


def generate(rng, prop, tier):
    if prop == 'C06':
        cfg = gen_config(rng)
        return {'engine': NAME, 'mode': 'enumerate', 'cfg': cfg, 'share_info': rng.random() < 0.4,
                'pre': {'frac': rng.choice([0.1, 0.5, 0.9, 1.0]), 'extra': rng.randint(0, 6),
                        'seed': rng.randrange(1 << 30)},
                'combo_seed': rng.randrange(1 << 30), 'n_combo': 12,
                'max_runs': 900 if tier == 'quick' else 2500}
    # C05
    cfg = gen_config(rng, small=True)
    cfg['log'] = False
    mode = rng.choice(['grow', 'grow', 'fixed', 'any'])
    if mode != 'any':
        rho = rng.randint(1, 3)
        cfg['target'] = {'kind': 'tt', 'rho': rho, 'tseed': rng.randrange(1 << 30)}
        if rng.random() < 0.12:
            cfg['target']['scale'] = rng.choice([1e-70, 1e-70, 1e-30, 1e+40])
        if mode == 'fixed':
            cfg['y0']['r'] = rho
            cfg['dr_min'] = cfg['dr_max'] = 0
            cfg['nswp'] = rng.randint(1, 3)
        else:
            cfg['dr_min'] = rng.choice([1, 1, 2])
            cfg['dr_max'] = cfg['dr_min'] + rng.choice([0, 1])
            r0 = cfg['y0']['r']
            need = -(-max(rho - r0, 0) // cfg['dr_min']) + 2
            cfg['nswp'] = need + rng.choice([0, 0, 1])
        cfg['e'] = None
        cfg['e_vld'] = None
    cfg['m_cache_scale'] = rng.choice([5, 5, 10 ** 9, 10 ** 9, 1])
    u = rng.random()
    if u < 0.02:
        # a very large validation set (size-dependent code paths in the error evaluation)
        cfg['vld'] = {'m': rng.randint(100001, 220000), 'seed': rng.randrange(1 << 30)}
        cfg['e_vld'] = None
        mode = 'any' if mode == 'any' else mode
    elif u < 0.04:
        # large working ranks (> 20): two modes of size ~25, full-rank table, fixed rank
        k = rng.randint(23, 28)
        cfg['n'] = [k, k]
        cfg['target'] = {'kind': 'rand', 'tseed': rng.randrange(1 << 30)}
        cfg['y0'] = {'r': rng.randint(21, 24), 'seed': rng.randrange(1 << 30)}
        cfg['dr_min'] = cfg['dr_max'] = 0
        cfg['nswp'] = 2
        cfg['e'] = cfg['e_vld'] = None
        cfg['vld'] = None
        cfg['ret'] = 'f64'
        mode = 'any'
    ncrash = rng.choice([0, 1, 1, 2, 2, 3, 4])
    if u < 0.04:
        ncrash = min(ncrash, 1)
    crashes = []
    for _ in range(ncrash):
        kind = rng.choice(['none_at', 'm', 'cb_at', 'raise_at'])
        crashes.append({'kind': kind, 'q': round(rng.random(), 4), 'early': rng.random() < 0.6,
                        'fresh_y0': rng.random() < 0.35, 'y0seed': rng.randrange(1 << 30)})
    return {'engine': NAME, 'mode': 'incarnations', 'cfg': cfg, 'expect': mode, 'share_info': rng.random() < 0.4,
            'cache0': rng.choice(['empty', 'empty', 'pre', 'foreign']),
            'pre': {'frac': rng.choice([0.2, 0.6, 1.0]), 'extra': rng.randint(0, 6), 'seed': rng.randrange(1 << 30)},
            'crashes': crashes}


# ------------------------------------------------------------------ one simulated cross call

class Obs:
    pass


def materialise(cfg):
    n = cfg['n']
    T = make_table(n, cfg['target'])
    if cfg['target'].get('scale') and cfg.get('ret') != 'f32':
        T = T * cfg['target']['scale']
    if cfg.get('ret') == 'f32':
        # a single-precision objective: the tensor it defines is the table rounded to float32
        T = T.astype(np.float32).astype(np.float64)
    Y0 = make_tt(n, cfg['y0']['r'], cfg['y0']['seed'], dist='uniform')
    yk = cfg['y0'].get('kind', 'generic')
    if yk == 'doubled':
        # A + A without rounding: block cores, every unfolding is rank deficient
        Z = []
        for k, G in enumerate(Y0):
            if k == 0:
                Z.append(np.concatenate([G, G], axis=2))
            elif k == len(Y0) - 1:
                Z.append(np.concatenate([G, G], axis=0))
            else:
                top = np.concatenate([G, np.zeros_like(G)], axis=2)
                bot = np.concatenate([np.zeros_like(G), G], axis=2)
                Z.append(np.concatenate([top, bot], axis=0))
        Y0 = Z
    elif yk == 'squared':
        # the elementwise square without rounding (Kronecker cores): symmetric, rank deficient unfoldings
        Y0 = [np.einsum('aib,cid->acibd', G, G).reshape(G.shape[0] ** 2, G.shape[1], G.shape[2] ** 2) for G in Y0]
    elif yk == 'warm':
        # a warm start: the (over-ranked) result of an earlier run on the same table
        tab = T
        Yw = teneva.cross(lambda I: tab[tuple(I.T)], Y0, nswp=2, dr_min=1, dr_max=2)
        if all(np.all(np.isfinite(G)) for G in Yw) and max(G.shape[2] for G in Yw) <= 12:
            Y0 = Yw
    I_vld = y_vld = None
    if cfg.get('vld'):
        g = gen(cfg['vld']['seed'])
        I_vld = np.stack([g.integers(0, k, cfg['vld']['m']) for k in n], axis=1)
        if cfg['vld'].get('neg'):
            # numpy-style subscripts counted from the end are subscripts too (the dense reference reads them the same way)
            flip = g.random(I_vld.shape) < 0.3
            I_vld = np.where(flip, I_vld - np.array(n)[None, :], I_vld)
        y_vld = T[tuple(I_vld.T)]
    return T, Y0, I_vld, y_vld


def run_once(cfg, world, plan, cache=None, Y0=None, stop_args=None, keep_tensors=True, sweep_cap=None, info=None):
    """One real teneva.cross call against the stub world. plan: none_at / m / cb_at."""
    T, Y0_, I_vld, y_vld = world
    Y0 = Y0_ if Y0 is None else Y0
    o = Obs()
    o.events = []
    CLOCK.reset()
    m = plan.get('m')
    o.f = Objective(T, o.events, none_at=plan.get('none_at'), m_max=m, latency=cfg.get('latency'),
                    ret_list=cfg.get('ret_list', False) or cfg.get('ret') == 'list', ret_f32=cfg.get('ret') == 'f32',
                    memo=bool(cfg.get('memo')) and cfg.get('ret', 'f64') == 'f64' and not cfg.get('ret_list'), raise_at=plan.get('raise_at'))
    o.mon = Monitor(o.events, cb_at=plan.get('cb_at'), jumps=cfg.get('jumps'), keep_tensors=keep_tensors,
                    sweep_cap=sweep_cap or 40, cont=cfg.get('cb_cont'))
    o.info = {} if info is None else info       # a caller may keep ONE progress record across calls
    o.cache = cache
    o.cache_in = None if cache is None else dict(cache)
    Y0_bytes = [G.tobytes() for G in Y0]
    kw = dict(m=m, e=cfg.get('e'), nswp=cfg.get('nswp'), tau=cfg['tau'], dr_min=cfg['dr_min'],
              dr_max=cfg['dr_max'], tau0=cfg['tau0'], k0=cfg['k0'], info=o.info, cache=cache,
              I_vld=I_vld, y_vld=y_vld, e_vld=cfg.get('e_vld'), cb=None if plan.get('no_cb') else o.mon,
              m_cache_scale=cfg['m_cache_scale'], log=cfg.get('log', False))
    if stop_args is not None:
        kw.update(stop_args)
    o.kw = kw
    o.Y = None
    o.exc = None
    o.abort = None
    o.failed = None
    try:
        with captured_stdout():
            if plan.get('positional'):
                # a caller that passes everything by position, in the documented order
                o.Y = teneva.cross(o.f, Y0, *[kw[k_] for k_ in POSITIONAL_ORDER], m_cache_scale=kw['m_cache_scale'], log=kw['log'])
            else:
                o.Y = teneva.cross(o.f, Y0, **kw)
    except SimAbort as e:
        o.abort = str(e)
    except ObjectiveFailure as e:   # the simulated crash of the objective: the exception propagates to the caller
        o.failed = e
    except Exception as e:          # whatever escapes from cross is judged by the oracles
        o.exc = e
    o.sim_time = CLOCK.advanced
    o.y0_changed = [G.tobytes() for G in Y0] != Y0_bytes
    return o


# the order of the arguments of cross after (f, Y0) in the signature of the pinned tree, up to the callback (then come `func`, for
# "internal experiments", `m_cache_scale` and `log`, which are passed by keyword)
POSITIONAL_ORDER = ['m', 'e', 'nswp', 'tau', 'dr_min', 'dr_max', 'tau0', 'k0', 'info', 'cache', 'I_vld', 'y_vld', 'e_vld', 'cb']


def make_cache(cfg, content=None):
    """The caller's cache object: a dict, or a dict subclass a user may well pass (documented type: dict)."""
    kind = cfg.get('cache_type', 'dict')
    if kind == 'defaultdict':
        c = collections.defaultdict(float)
    elif kind == 'ordered':
        c = collections.OrderedDict()
    else:
        c = {}
    if content:
        c.update(content)
    return c


def batch_key(B):
    return [tuple(int(x) for x in row) for row in B]


# ------------------------------------------------------------------ reference model

def twin_trace(tw):
    """Ordered trace of the fault-free twin: ('batch', rows) and ('sweep', s, info)."""
    tr = []
    bi = 0
    for ev in tw.events:
        if ev[0] == 'f':
            tr.append(('batch', batch_key(tw.f.batches[bi])))
            bi += 1
        else:
            tr.append(('sweep', ev[1], tw.mon.snaps[ev[1] - 1]['info']))
    return tr


def thresholds(info, cfg, nswp_done, e_vld_only=False):
    """The stop reasons _among the threshold criteria_ that hold for this info."""
    r = set()
    ev, e = info.get('e_vld', -1), info.get('e', -1)
    if cfg.get('e_vld') is not None and ev >= 0 and ev <= cfg['e_vld'] and not np.isinf(ev):
        r.add('e_vld')
    if cfg.get('e') is not None and e >= 0 and e <= cfg['e'] and not np.isinf(e):
        r.add('e')
    if cfg.get('nswp') is not None and nswp_done >= cfg['nswp']:
        r.add('nswp')
    return r


def model(trace, pre_info, cfg, plan, cache_keys):
    """Predict the observable outcome of a faulted run from the twin's trace.
    Returns dict(stops=set of acceptable reasons, nswp, m, m_cache, calls=[rows], next_new)."""
    m_max = plan.get('m')
    none_at = plan.get('none_at')
    cb_at = plan.get('cb_at')
    C = None if cache_keys is None else set(cache_keys)
    out = {'m': 0, 'm_cache': 0, 'calls': [], 'nswp': 0, 'stops': None, 'next_new': None,
           'beyond_twin': False}
    pending = thresholds(pre_info, cfg, 0)       # a stop already set by the pre-iteration check
    if pending:
        out['pre_stop'] = True
    for ev in trace:
        if ev[0] == 'batch':
            B = ev[1]
            new = B if C is None else [i for i in B if i not in C]
            if new:
                if m_max is not None and out['m'] + len(new) > m_max:
                    out['stops'] = {'m'}
                    out['next_new'] = len(new)
                    return out
                out['calls'].append(new)
                if none_at is not None and len(out['calls']) == none_at:
                    out['stops'] = {'func'}
                    return out
                out['m'] += len(new)
                if C is not None:
                    C.update(new)
            if C is not None:
                out['m_cache'] += len(B) - len(new)
            if pending:
                out['stops'] = pending
                return out
        else:
            s, info = ev[1], ev[2]
            out['nswp'] = s
            first = set()
            if C is not None and out['m_cache'] > cfg['m_cache_scale'] * out['m']:
                first.add('conv')
            if cb_at is not None and cb_at == s:
                first.add('cb')
            if first:
                out['stops'] = first
                return out
            th = thresholds(info, cfg, s)
            if th:
                out['stops'] = th
                return out
    out['beyond_twin'] = True     # the faulted run must go on beyond what the twin did: cannot predict
    return out


# ------------------------------------------------------------------ oracles for one run (C06)

def viol(prop, oracle, detail, plan=None):
    v = {'property': prop, 'oracle': oracle, 'detail': detail}
    if plan is not None:
        v['plan'] = plan
    return v


def check_direct(o, cfg, plan, cache_kind, n, V, stats, tag):
    """Oracles that need no model: domain, budget, counters vs what the stub saw,
    stop consistency, well-formedness."""
    P = 'C06'
    for kind, msg in o.f.bad:
        V.append(viol(P, kind, '%s: %s' % (tag, msg), plan))
    if o.abort is not None and not o.f.bad:
        V.append(viol(P, 'liveness', '%s: step cap hit: %s (run does not stop)' % (tag, o.abort), plan))
        return False
    if o.abort is not None:
        return False
    if o.exc is not None:
        V.append(viol(P, 'exception', '%s: cross raised %s: %s' % (tag, type(o.exc).__name__, str(o.exc)[:300]), plan))
        return False
    why = wellformed_tt(o.Y, n)
    if why:
        V.append(viol(P, 'wellformed', '%s: %s (stop=%r)' % (tag, why, o.info.get('stop')), plan))
    info = o.info
    stop = info.get('stop')
    if stop not in DOCUMENTED_STOPS:
        V.append(viol(P, 'stop-documented', '%s: info[stop]=%r is not a documented reason' % (tag, stop), plan))
        return False
    stats['stop_' + stop] = stats.get('stop_' + stop, 0) + 1
    if info.get('m') != o.f.rows:
        V.append(viol(P, 'counter-m', '%s: info[m]=%r but the objective evaluated %d indices (stop=%s)'
                      % (tag, info.get('m'), o.f.rows, stop), plan))
    if plan.get('m') is not None and info.get('m_max') != int(plan['m']):
        V.append(viol(P, 'counter-m_max', '%s: info[m_max]=%r for m=%r' % (tag, info.get('m_max'), plan['m']), plan))
    if cache_kind != 'none':
        # with a cache: each distinct index at most once, never a pre-populated one
        seen = set(o.cache_in)
        for b in o.f.batches:
            for key in batch_key(b):
                if key in seen:
                    V.append(viol(P, 'cache-exactly-once', '%s: index %s requested from the objective although cached / already requested'
                                  % (tag, key), plan))
                    break
                seen.add(key)
            else:
                continue
            break
    nsw = len(o.mon.snaps)
    if info.get('nswp') != nsw:
        V.append(viol(P, 'counter-nswp', '%s: info[nswp]=%r but the monitor saw %d sweeps' % (tag, info.get('nswp'), nsw), plan))
    if cfg.get('nswp') is not None and nsw > cfg['nswp'] and cfg['nswp'] > 0:
        V.append(viol(P, 'stop-nswp', '%s: %d sweeps executed with nswp=%d' % (tag, nsw, cfg['nswp']), plan))
    last = o.events[-1] if o.events else None
    if stop == 'nswp':
        if cfg.get('nswp') is None or info.get('nswp') != cfg['nswp']:
            V.append(viol(P, 'stop-nswp', '%s: stop=nswp with info[nswp]=%r, nswp=%r' % (tag, info.get('nswp'), cfg.get('nswp')), plan))
    elif stop == 'm':
        if plan.get('m') is None:
            V.append(viol(P, 'stop-m', '%s: stop=m without a budget' % tag, plan))
    elif stop == 'e':
        if cfg.get('e') is None or not (0 <= info.get('e', -1) <= cfg['e']):
            V.append(viol(P, 'stop-e', '%s: stop=e with info[e]=%r, e=%r' % (tag, info.get('e'), cfg.get('e')), plan))
    elif stop == 'e_vld':
        if cfg.get('e_vld') is None or not (0 <= info.get('e_vld', -1) <= cfg['e_vld']):
            V.append(viol(P, 'stop-e_vld', '%s: stop=e_vld with info[e_vld]=%r, e_vld=%r' % (tag, info.get('e_vld'), cfg.get('e_vld')), plan))
    elif stop == 'cb':
        if not (last and last[0] == 'cb' and last[2] is True):
            V.append(viol(P, 'stop-cb', '%s: stop=cb but the last event is %r' % (tag, last), plan))
    elif stop == 'func':
        if not (last and last[0] == 'f' and last[3] == 'None'):
            V.append(viol(P, 'stop-func', '%s: stop=func but the last event is %r' % (tag, last), plan))
    elif stop == 'conv':
        if cache_kind == 'none' or not (info.get('m_cache', 0) > cfg['m_cache_scale'] * info.get('m', 0)):
            V.append(viol(P, 'stop-conv', '%s: stop=conv with cache=%s m_cache=%r m=%r scale=%r'
                          % (tag, cache_kind, info.get('m_cache'), info.get('m'), cfg['m_cache_scale']), plan))
    # faults must take effect: after None / True nothing else may happen
    if o.f.none_fired and stop != 'func':
        V.append(viol(P, 'stop-func', '%s: objective returned None at call %d but stop=%r' % (tag, plan.get('none_at'), stop), plan))
    if o.f.none_fired and not (last and last[0] == 'f' and last[3] == 'None'):
        V.append(viol(P, 'stop-func', '%s: events after the objective returned None: %r' % (tag, last), plan))
    if o.mon.fired and not (last and last[0] == 'cb' and last[2] is True):
        V.append(viol(P, 'stop-cb', '%s: events after the callback returned True: %r' % (tag, last), plan))
    if o.mon.fired and stop not in ('cb', 'conv'):
        V.append(viol(P, 'stop-cb', '%s: callback returned True at sweep %r but stop=%r' % (tag, plan.get('cb_at'), stop), plan))
    # e / e_vld reported are those of the returned tensor (cheap cross-check, tolerance, see DESIGN 3.2)
    if why is None and stop in ('e', 'e_vld') and o.mon.snaps:
        pass
    if o.y0_changed:
        V.append(viol(P, 'wellformed', '%s: the start tensor was modified' % tag, plan))
    return why is None


def check_model(o, pred, cfg, plan, cache_kind, V, stats, tag):
    """Model-based oracles (prefix refinement of the twin)."""
    P = 'C06'
    if pred['beyond_twin'] or pred['stops'] is None:
        stats['skipped_oracles_beyond_twin'] = stats.get('skipped_oracles_beyond_twin', 0) + 1
        return
    got = [batch_key(b) for b in o.f.batches]
    want = pred['calls']
    common = min(len(got), len(want))
    if got[:common] != want[:common]:
        # prefix property fails: the model cannot judge this run; direct oracles still applied (DESIGN 3.1)
        stats['skipped_oracles_prefix'] = stats.get('skipped_oracles_prefix', 0) + 1
        return
    if len(got) != len(want):
        # same requests as the twin as far as it went, but it stopped at another point than the documented protocol says
        nxt = len(want[common]) if len(want) > common else None
        V.append(viol(P, 'stop-point', '%s: run made %d objective calls and stopped with %r (m=%r, nswp=%r); the stop protocol applied to the '
                      'fault-free twin gives %d calls and stop %s%s'
                      % (tag, len(got), o.info.get('stop'), o.info.get('m'), o.info.get('nswp'), len(want), sorted(pred['stops']),
                         '' if nxt is None else ' (next batch has %d new indices)' % nxt), plan))
        return
    info = o.info
    stop = info.get('stop')
    if stop not in pred['stops']:
        V.append(viol(P, 'stop-model', '%s: stop=%r, model allows %s (m=%r m_cache=%r nswp=%r)'
                      % (tag, stop, sorted(pred['stops']), info.get('m'), info.get('m_cache'), info.get('nswp')), plan))
    if info.get('nswp') != pred['nswp']:
        V.append(viol(P, 'stop-model', '%s: stopped after %r sweeps, model predicts %d (stop=%r)'
                      % (tag, info.get('nswp'), pred['nswp'], stop), plan))
    if info.get('m') != pred['m']:
        V.append(viol(P, 'counter-m', '%s: info[m]=%r, model predicts %d' % (tag, info.get('m'), pred['m']), plan))
    if cache_kind != 'none' and info.get('m_cache') != pred['m_cache']:
        V.append(viol(P, 'counter-m_cache', '%s: info[m_cache]=%r, model predicts %d (m=%r)'
                      % (tag, info.get('m_cache'), pred['m_cache'], info.get('m')), plan))
    if cache_kind == 'none' and info.get('m_cache') not in (0, None):
        V.append(viol(P, 'counter-m_cache', '%s: info[m_cache]=%r without a cache' % (tag, info.get('m_cache')), plan))
    if stop == 'm' and pred['next_new'] is not None:
        if not (info.get('m', 0) + pred['next_new'] > plan['m']):
            V.append(viol(P, 'stop-m', '%s: stop=m raised early: m=%r + next batch %d <= budget %d'
                          % (tag, info.get('m'), pred['next_new'], plan['m']), plan))


def build_pre_cache(scen_pre, trace, T, n):
    """A pre-populated cache: a seeded subset of what the twin requests (true values)
    plus entries for indices it may never request."""
    g = gen(scen_pre['seed'])
    keys = []
    seen = set()
    for ev in trace:
        if ev[0] == 'batch':
            for k in ev[1]:
                if k not in seen:
                    seen.add(k)
                    keys.append(k)
    pick = g.random(len(keys)) < scen_pre['frac']
    cache = {k: float(T[k]) for k, p in zip(keys, pick) if p}
    for _ in range(scen_pre['extra']):
        k = tuple(int(g.integers(0, nk)) for nk in n)
        cache[k] = float(T[k])
    return cache


def plans_for(scen, tw, trace, pre_cache):
    """Enumerate the fault plans of one scenario (complete, or complete per behaviour class)."""
    N = tw.f.calls
    S = len(tw.mon.snaps)
    plans = []
    kinds = ['none', 'empty', 'pre']
    budget_left = scen.get('max_runs', 900)
    for ck in kinds:
        keys = None if ck == 'none' else (set() if ck == 'empty' else set(pre_cache))
        base = model(trace, {'e': -1, 'e_vld': -1}, {'m_cache_scale': 10 ** 18, 'nswp': None}, {}, keys)
        sizes = [len(c) for c in base['calls']]
        M = sum(sizes)
        Nc = len(sizes)
        for k in range(1, Nc + 2):
            plans.append({'cache': ck, 'none_at': k})
        for s in range(1, S + 2):
            plans.append({'cache': ck, 'cb_at': s})
        per_kind = max(60, budget_left // 3 - Nc - S)
        if M + 1 <= per_kind:
            ms = list(range(1, M + 2))
            full = True
        else:
            ms = set()
            t = 0
            for sz in sizes:
                t += sz
                ms.update((t - 1, t, t + 1))
                ms.add(t - sz + 1)
            ms = sorted(x for x in ms if 1 <= x <= M + 1)
            g = gen(scen['combo_seed'] + len(plans))
            if len(ms) > per_kind:
                ms = sorted(set(ms[:per_kind // 2]) | set(int(x) for x in g.choice(ms, per_kind // 2, replace=False)))
            else:
                extra = g.integers(1, M + 2, max(0, per_kind - len(ms)))
                ms = sorted(set(ms) | set(int(x) for x in extra))
            full = False
        for jj, mm in enumerate(ms):
            plans.append({'cache': ck, 'm': int(mm)})
            if jj % 7 == 3:
                # a budget need not be an integer ("not more than m requests"): the same budget plus a fraction
                plans.append({'cache': ck, 'm': int(mm) + [0.4, 0.6, 0.9999999][jj % 3]})
        scen.setdefault('_enum', {})[ck] = {'calls': Nc, 'M': M, 'budgets': len(ms), 'budget_complete': full}
    g = gen(scen['combo_seed'])
    for _ in range(scen.get('n_combo', 0)):
        p = {'cache': kinds[int(g.integers(0, 3))]}
        if g.random() < 0.7:
            p['none_at'] = int(g.integers(1, N + 2))
        if g.random() < 0.7:
            p['m'] = int(g.integers(1, max(2, tw.f.rows + 2)))
        if g.random() < 0.7:
            p['cb_at'] = int(g.integers(1, S + 2))
        plans.append(p)
    return plans


def argcombo_runs(scen, world, V, stats):
    """All subsets of {m, e, nswp, e_vld} x validation data present/absent."""
    cfg = scen['cfg']
    T, Y0, I_vld, y_vld = world
    n = cfg['n']
    g = gen(scen['combo_seed'] + 17)
    Iv = np.stack([g.integers(0, k, 5) for k in n], axis=1)
    yv = T[tuple(Iv.T)]
    runs = 0
    for mask in range(16):
        for with_data in (False, True, 'I_only'):
            sa = {'m': 40 if mask & 1 else None, 'e': 1e-6 if mask & 2 else None,
                  'nswp': 2 if mask & 4 else None, 'e_vld': 1e-6 if mask & 8 else None,
                  'I_vld': Iv if with_data else None, 'y_vld': yv if with_data is True else None}
            plan = {'m': sa['m'], 'cb_at': 3, 'args': {k: (v if not isinstance(v, np.ndarray) else 'data') for k, v in sa.items()}}
            c2 = dict(cfg, e=sa['e'], nswp=sa['nswp'], e_vld=sa['e_vld'], log=False)
            o = run_once(c2, world, plan, stop_args={'I_vld': sa['I_vld'], 'y_vld': sa['y_vld']}, keep_tensors=False)
            runs += 1
            tag = 'stop-arguments %s data=%s' % ({k: v for k, v in plan['args'].items() if k in ('m', 'e', 'nswp', 'e_vld')}, with_data)
            usable = (sa['m'] is not None or sa['e'] is not None or sa['nswp'] is not None
                      or (sa['e_vld'] is not None and with_data is True))
            if not usable:
                if not isinstance(o.exc, ValueError):
                    V.append(viol('C06', 'missing-criteria', '%s: expected ValueError, got %s'
                                  % (tag, 'normal return' if o.exc is None else repr(o.exc)[:200]), plan))
                elif o.f.calls != 0:
                    V.append(viol('C06', 'missing-criteria', '%s: ValueError after %d objective calls' % (tag, o.f.calls), plan))
                else:
                    stats['probe.valueerror_rejected'] = stats.get('probe.valueerror_rejected', 0) + 1
                continue
            if isinstance(o.exc, ValueError) and sa['e_vld'] is not None and with_data is not True:
                # e_vld without a validation set while another criterion is present: rejecting is documented behaviour
                if o.f.calls != 0:
                    V.append(viol('C06', 'missing-criteria', '%s: ValueError after %d objective calls' % (tag, o.f.calls), plan))
                stats['probe.valueerror_rejected'] = stats.get('probe.valueerror_rejected', 0) + 1
                continue
            st = {}
            check_direct(o, c2, plan, 'none', n, V, st, tag)
    # a validation threshold that is out of reach (noisy validation values) does not switch the other criteria off: the run with e
    # and that e_vld ends where the run with e alone ends, with the same tensor
    yn2 = yv + 0.05 * (1.0 + np.abs(yv)) * gen(scen['combo_seed'] + 23).standard_normal(len(yv))
    e_thr = [1e-2, 1e-5, 1e-9][scen['combo_seed'] % 3]
    ca = dict(cfg, e=e_thr, nswp=None, e_vld=None, log=False)
    cb_ = dict(cfg, e=e_thr, nswp=None, e_vld=1e-12, log=False)
    pa = {'m': None, 'cb_at': 30, 'args': {'e': e_thr}}
    pb = {'m': None, 'cb_at': 30, 'args': {'e': e_thr, 'e_vld': 1e-12, 'validation_values': 'noisy'}}
    oa = run_once(ca, world, pa, stop_args={'I_vld': Iv, 'y_vld': yn2}, keep_tensors=False)
    ob = run_once(cb_, world, pb, stop_args={'I_vld': Iv, 'y_vld': yn2}, keep_tensors=False)
    runs += 2
    if oa.Y is not None and ob.Y is not None:
        stats['probe.unreached_e_vld_twin'] = stats.get('probe.unreached_e_vld_twin', 0) + 1
        if (oa.info.get('stop'), oa.info.get('nswp')) != (ob.info.get('stop'), ob.info.get('nswp')) \
                or [G.tobytes() for G in oa.Y] != [G.tobytes() for G in ob.Y]:
            V.append(viol('C06', 'stop-e', 'e=%g with an e_vld that is never reached: stop=%r after %r sweeps; the same run without e_vld: stop=%r after %r sweeps'
                          % (e_thr, ob.info.get('stop'), ob.info.get('nswp'), oa.info.get('stop'), oa.info.get('nswp')), pb))
    elif (oa.Y is None) != (ob.Y is None):
        V.append(viol('C06', 'exception', 'e with an unreached e_vld: %r / without e_vld: %r' % (ob.exc, oa.exc), pb))
    if scen['combo_seed'] % 3 == 0:
        # a run that no sweep count limits (validation threshold out of reach: the validation values are noisy) goes on until the
        # callback ends it, however late that is
        S = 101 + int(g.integers(0, 40))
        yn = yv + 0.05 * (1.0 + np.abs(yv)) * g.standard_normal(len(yv))
        c2 = dict(cfg, e=None, nswp=None, e_vld=1e-9, log=False, dr_min=0, dr_max=0)
        plan = {'m': None, 'cb_at': S, 'args': {'e_vld': 1e-9, 'long_run_until_sweep': S}}
        o = run_once(c2, world, plan, stop_args={'I_vld': Iv, 'y_vld': yn}, keep_tensors=False, sweep_cap=S + 5)
        runs += 1
        st = {}
        tag = 'long run ended by the callback at sweep %d (only e_vld given, out of reach)' % S
        if check_direct(o, c2, plan, 'none', n, V, st, tag) and o.info.get('stop') == 'cb' and o.info.get('nswp') == S:
            stats['probe.long_run_over_100_sweeps'] = stats.get('probe.long_run_over_100_sweeps', 0) + 1
    return runs


def execute_enumerate(scen):
    MAXVOL_LIMIT[0] = 0
    cfg = scen['cfg']
    n = cfg['n']
    world = materialise(cfg)
    T = world[0]
    V = []
    stats = {}
    runs = 0
    sim_time = 0.0
    h = []
    # fault-free twin and the pre-iteration twin
    shared = {} if scen.get('share_info') else None      # one info dictionary re-used by every call of this scenario
    tw = run_once(cfg, world, {}, info=shared)
    runs += 1
    sim_time += tw.sim_time
    tw.info = dict(tw.info)
    ok = check_direct(tw, cfg, {}, 'none', n, V, stats, 'fault-free twin')
    if not ok or tw.info.get('stop') is None:
        return {'violations': V, 'runs': runs, 'stats': {'probe.' + k if not k.startswith('probe.') else k: v for k, v in stats.items()},
                'digest': dig(cjson([v['oracle'] for v in V])), 'nontrivial': 0, 'sim_time': sim_time,
                'sample': {'cfg': cfg, 'note': 'twin failed'}}
    pre = run_once(dict(cfg, nswp=0, e=None, e_vld=None), world, {})
    runs += 1
    pre_info = {'e': -1, 'e_vld': -1}
    if pre.Y is not None and world[2] is not None:
        pre_info['e_vld'] = teneva.accuracy_on_data(pre.Y, world[2], world[3])
    trace = twin_trace(tw)
    pre_cache = build_pre_cache(scen['pre'], trace, T, n)
    if scen.get('plans') is not None:
        plans = scen['plans']
    else:
        plans = plans_for(scen, tw, trace, pre_cache)
        runs += argcombo_runs(scen, world, V, stats)
        # interruptions of a run that nobody watches and that has no convergence threshold (no callback, no e): the same tensor, the same
        # counters and the same stop reason as the watched run interrupted at the same place
        cu = dict(cfg, e=None, nswp=cfg.get('nswp') or 3, log=False)
        g_u = gen(scen['combo_seed'] + 31)
        ncalls = max(1, tw.f.calls)
        for k_u in sorted(set(int(x) for x in g_u.integers(1, ncalls + 1, 4))) + [None]:
            pl_w = {'none_at': k_u} if k_u is not None else {'m': max(1, int(tw.info.get('m', 2)) // 2)}
            ow = run_once(cu, world, dict(pl_w, m=pl_w.get('m')), keep_tensors=False)
            ou = run_once(cu, world, dict(pl_w, m=pl_w.get('m'), no_cb=True), keep_tensors=False)
            runs += 2
            stats['probe.unobserved_interruption_twin'] = stats.get('probe.unobserved_interruption_twin', 0) + 1
            tag_u = 'unwatched run (no callback, no e) interrupted by %s' % cjson(pl_w)
            if ow.Y is None:
                continue          # the watched run is judged by the enumeration below
            if ou.Y is None:
                V.append(viol('C06', 'exception', '%s raised %r %r; the watched run returns normally' % (tag_u, ou.exc, ou.abort), dict(pl_w, no_cb=True)))
                break
            why_u = wellformed_tt(ou.Y, n)
            if why_u:
                V.append(viol('C06', 'wellformed', '%s: %s' % (tag_u, why_u), dict(pl_w, no_cb=True)))
                break
            ka = {k: repr(v) for k, v in ow.info.items() if k != 't'}
            kb = {k: repr(v) for k, v in ou.info.items() if k != 't'}
            if [G.tobytes() for G in ou.Y] != [G.tobytes() for G in ow.Y] or ka != kb:
                V.append(viol('C06', 'transparency-callback', '%s differs from the watched run: %s' % (tag_u, sorted((k, ka.get(k), kb.get(k)) for k in set(ka) | set(kb) if ka.get(k) != kb.get(k))[:4] or 'other tensor'),
                              dict(pl_w, no_cb=True)))
                break
    nontrivial = 0
    P = lambda k: stats.__setitem__('probe.' + k, stats.get('probe.' + k, 0) + 1)
    Fk = lambda k: stats.__setitem__('fault.' + k, stats.get('fault.' + k, 0) + 1)
    if thresholds(pre_info, cfg, 0):
        P('pre_iteration_stop')
    for plan in plans:
        if 'args' in plan:           # a replayed stop-argument case
            continue
        ck = plan.get('cache', 'none')
        cache = None if ck == 'none' else (make_cache(cfg) if ck == 'empty' else make_cache(cfg, pre_cache))
        o = run_once(cfg, world, plan, cache=cache, keep_tensors=False, info=shared)
        if shared is not None:
            o.info = dict(o.info)
            stats['fault.info_dict_reused_across_calls'] = stats.get('fault.info_dict_reused_across_calls', 0) + 1
        runs += 1
        sim_time += o.sim_time
        tag = 'plan %s%s' % (cjson(plan), ' (info dictionary re-used from the previous call)' if shared is not None else '')
        st = {}
        good = check_direct(o, cfg, plan, ck, n, V, st, tag)
        for k, v in st.items():
            stats['probe.' + k] = stats.get('probe.' + k, 0) + v
        if o.exc is None and o.abort is None:
            pred = model(trace, pre_info, cfg, plan, None if ck == 'none' else (set() if ck == 'empty' else set(pre_cache)))
            check_model(o, pred, cfg, plan, ck, V, stats, tag)
            stop = o.info.get('stop')
            if stop == 'func':
                Fk('objective_none')
            if stop == 'm':
                Fk('budget_exhausted')
                if o.f.rows == 0:
                    P('budget_inside_first_batch')
            if o.mon.fired:
                Fk('callback_cancel')
            if stop == 'conv':
                P('conv_fired')
            if stop in ('func', 'm') and o.Y is not None and o.f.rows > 0:
                prev_r = o.mon.snaps[-1]['ranks'] if o.mon.snaps else ([G.shape[2] for G in pre.Y] if pre.Y is not None else None)
                if prev_r is not None and [G.shape[2] for G in o.Y] != prev_r:
                    # a bond rank changed inside the interrupted half-sweep: the pending factor R was non-square
                    P('interrupted_nonsquare_R')
            if ck == 'pre':
                Fk('prepopulated_cache')
            if o.f.rows > 0 and (stop in ('func', 'm', 'cb', 'conv', 'e', 'e_vld', 'nswp')):
                nontrivial += 1
        if o.f.latency:
            Fk('objective_latency')
        if cfg.get('jumps') and o.mon.snaps:
            Fk('clock_jump')
        h.append((cjson(plan), o.info.get('stop'), o.info.get('m'), o.info.get('m_cache'), o.info.get('nswp'),
                  None if o.Y is None else [G.tobytes() for G in o.Y], repr(o.exc) if o.exc else None))
    if MAXVOL_LIMIT[0]:
        stats['probe.maxvol_iteration_limit'] = MAXVOL_LIMIT[0]
    sample = {'cfg': cfg, 'twin': {'calls': tw.f.calls, 'M': tw.f.rows, 'sweeps': len(tw.mon.snaps), 'stop': tw.info.get('stop')},
              'enumeration': scen.get('_enum'), 'plans': len(plans), 'example_plans': plans[:2] + plans[-2:]}
    scen.pop('_enum', None)
    return {'violations': V, 'runs': runs, 'stats': stats, 'digest': dig(h), 'nontrivial': nontrivial,
            'sim_time': sim_time, 'sample': sample}


# ------------------------------------------------------------------ C05: incarnation sequences

def rel_err(A, B):
    nb = np.linalg.norm(B)
    return float(np.linalg.norm(A - B) / nb) if nb > 0 else float(np.linalg.norm(A - B))


def tt_equal_bits(Ya, Yb):
    return len(Ya) == len(Yb) and all(a.shape == b.shape and a.tobytes() == b.tobytes() for a, b in zip(Ya, Yb))


def check_info_truth(o, world, Ypre, V, tag, stats):
    """info tells the truth about the returned tensor: r, e_vld, e."""
    P = 'C05'
    info, Y = o.info, o.Y
    # effective rank (independent formula)
    n = [G.shape[1] for G in Y]
    r = [1] + [G.shape[2] for G in Y]
    sz = sum(r[k] * n[k] * r[k + 1] for k in range(len(Y)))
    a = sum(n[1:-1])
    b = n[0] + n[-1]
    er = (np.sqrt(b * b + 4 * a * sz) - b) / (2 * a) if a > 0 else sz / b
    if abs(info.get('r', -1) - er) > 1e-9 * max(1, er):
        V.append(viol(P, 'info-r', '%s: info[r]=%r but the returned tensor has effective rank %r (ranks %s)' % (tag, info.get('r'), er, r)))
    I_vld, y_vld = world[2], world[3]
    full = tt_full(Y)
    if I_vld is not None:
        ev = np.linalg.norm(full[tuple(I_vld.T)] - y_vld) / np.linalg.norm(y_vld)
        got = info.get('e_vld', -1)
        if not (abs(got - ev) <= 1e-7 + 1e-6 * ev):
            V.append(viol(P, 'info-e_vld', '%s: info[e_vld]=%r but the returned tensor has validation error %r' % (tag, got, ev)))
    else:
        if info.get('e_vld') != -1:
            V.append(viol(P, 'info-e_vld', '%s: info[e_vld]=%r without validation data' % (tag, info.get('e_vld'))))
    # convergence value: distance to the tensor of the previous sweep
    nsw = len(o.mon.snaps)
    stop = info.get('stop')
    if stop in ('func', 'm'):
        # interrupted inside a sweep: previous tensor = tensor at the last completed sweep (or pre-iteration)
        prev = o.mon.snaps[-1]['Y'] if nsw else Ypre
    else:
        prev = o.mon.snaps[-2]['Y'] if nsw >= 2 else Ypre
    if prev is not None:
        fp = tt_full(prev)
        np_ = np.linalg.norm(fp)
        ref = np.linalg.norm(full - fp) / np_ if np_ > 0 else -1
        got = info.get('e', -1)
        if np_ > 1e-90 and not (abs(got - ref) <= 1e-7 + 1e-5 * ref):     # below 1e-100 the library reports the documented sentinel -1
            V.append(viol(P, 'info-e', '%s: info[e]=%r but the distance of the returned tensor to the previous sweep is %r (stop=%s, sweeps=%d)'
                          % (tag, got, ref, stop, nsw)))
        stats['probe.info_e_checked'] = stats.get('probe.info_e_checked', 0) + 1
    # what the callback is handed as "tensor of the previous sweep" is that tensor: bit for bit the tensor it saw one sweep earlier
    for s_ in range(1, nsw):
        a_, b_ = o.mon.snaps[s_].get('Yold'), o.mon.snaps[s_ - 1].get('Y')
        if a_ is None or b_ is None:
            continue
        stats['probe.callback_yold_checked'] = stats.get('probe.callback_yold_checked', 0) + 1
        if len(a_) != len(b_) or any(x.shape != y_.shape or x.tobytes() != y_.tobytes() for x, y_ in zip(a_, b_)):
            V.append(viol(P, 'callback-yold', '%s: opts[Yold] handed to the callback after sweep %d is not the tensor the callback saw after sweep %d'
                          % (tag, s_ + 1, s_)))
            break


def execute_incarnations(scen):
    cfg = scen['cfg']
    n = cfg['n']
    world = materialise(cfg)
    T = world[0]
    V = []
    stats = {}
    P = lambda k: stats.__setitem__('probe.' + k, stats.get('probe.' + k, 0) + 1)
    Fk = lambda k: stats.__setitem__('fault.' + k, stats.get('fault.' + k, 0) + 1)
    runs = 0
    sim = 0.0
    nontrivial = 0
    h = []
    prop = 'C05'

    def twin_for(Y0):
        o = run_once(cfg, world, {}, Y0=Y0)
        return o

    tw = twin_for(None)
    runs += 1
    if tw.exc is not None or tw.abort is not None or tw.Y is None:
        V.append(viol(prop, 'exception', 'fault-free uncached run failed: %r %r' % (tw.exc, tw.abort)))
        return {'violations': V, 'runs': runs, 'stats': stats, 'digest': dig('x'), 'nontrivial': 0, 'sim_time': 0.0}
    pre = run_once(dict(cfg, nswp=0, e=None, e_vld=None), world, {})
    runs += 1
    Ypre = pre.Y
    trace = twin_trace(tw)
    if tw.info.get('stop') != 'cb':
        # nobody watching: the same call without a sweep callback returns the same tensor and the same progress record
        un = run_once(cfg, world, {'no_cb': True})
        runs += 1
        P('unobserved_run')
        if un.Y is None:
            V.append(viol(prop, 'exception', 'the fault-free run without a callback failed: %r %r' % (un.exc, un.abort)))
        elif [G.tobytes() for G in un.Y] != [G.tobytes() for G in tw.Y]:
            V.append(viol(prop, 'transparency-callback', 'the run without a sweep callback returns another tensor than the run with a callback that only watches'))
        else:
            ia = {k: repr(v) for k, v in tw.info.items() if k != 't'}
            ib = {k: repr(v) for k, v in un.info.items() if k != 't'}
            if ia != ib:
                V.append(viol(prop, 'transparency-callback', 'info of the run without a sweep callback differs from the watched run: %s'
                              % sorted((k, ia.get(k), ib.get(k)) for k in set(ia) | set(ib) if ia.get(k) != ib.get(k))[:4]))
        if V:
            return {'violations': V, 'runs': runs, 'stats': stats, 'digest': dig('x'), 'nontrivial': 0, 'sim_time': 0.0}
    if True:
        # the same call with every argument passed by position (documented order): same tensor, same progress record
        po = run_once(cfg, world, {'positional': True})
        runs += 1
        P('positional_call')
        if po.Y is None or tw.Y is None:
            if (po.Y is None) != (tw.Y is None):
                V.append(viol(prop, 'transparency-positional', 'the call with all arguments passed by position (documented order) fails: %r %r' % (po.exc, po.abort)))
        else:
            ia = {k: repr(v) for k, v in tw.info.items() if k != 't'}
            ib = {k: repr(v) for k, v in po.info.items() if k != 't'}
            if [G.tobytes() for G in po.Y] != [G.tobytes() for G in tw.Y] or ia != ib:
                V.append(viol(prop, 'transparency-positional', 'the call with all arguments passed by position (documented order) differs from the keyword call: %s'
                              % (sorted((k, ia.get(k), ib.get(k)) for k in set(ia) | set(ib) if ia.get(k) != ib.get(k))[:4] or 'other tensor')))
        if V:
            return {'violations': V, 'runs': runs, 'stats': stats, 'digest': dig('x'), 'nontrivial': 0, 'sim_time': 0.0}
    # initial durable state
    if scen['cache0'] == 'empty':
        cache = make_cache(cfg)
    elif scen['cache0'] == 'pre':
        cache = make_cache(cfg, build_pre_cache(scen['pre'], trace, T, n))
        Fk('prepopulated_cache')
    else:
        # foreign: left behind by a complete run from another start tensor
        cache = make_cache(cfg)
        Yf = make_tt(n, cfg['y0']['r'], scen['pre']['seed'], dist='uniform')
        run_once(cfg, world, {}, cache=cache, Y0=Yf, keep_tensors=False)
        runs += 1
        Fk('foreign_cache')
        P('foreign_cache')
    pre_keys = set(cache)
    for k, v in cache.items():
        if v != float(T[k]):
            raise RuntimeError('harness: bad pre-populated value')
    evaluated = {}                 # index -> value, over the whole incarnation sequence
    shared = {} if scen.get('share_info') else None     # one info dictionary (progress record) kept by the caller across all calls
    same_y0 = True
    Y0 = None
    cur_twin = tw
    Ypre_cur = Ypre
    for ci, cr in enumerate(scen['crashes'] + [None]):
        if cr is not None and cr.get('fresh_y0'):
            Y0 = make_tt(n, cfg['y0']['r'], cr['y0seed'], dist='uniform')
            same_y0 = False
            cur_twin = twin_for(Y0)
            p2 = run_once(dict(cfg, nswp=0, e=None, e_vld=None), world, {}, Y0=Y0)
            runs += 2
            if cur_twin.Y is None or p2.Y is None:
                break
            Ypre_cur = p2.Y
        plan = {}
        if cr is not None:
            q = cr['q']
            # place the crash where this incarnation (given the surviving cache) really is at work
            C = set(cache)
            sizes, first_sweep_calls = [], None
            for ev in twin_trace(cur_twin):
                if ev[0] == 'batch':
                    new = [i for i in ev[1] if i not in C]
                    if new:
                        sizes.append(len(new))
                        C.update(new)
                elif first_sweep_calls is None:
                    first_sweep_calls = len(sizes)
            ncall = len(sizes)
            if cr.get('early') and first_sweep_calls:
                ncall = first_sweep_calls
            if cr['kind'] == 'none_at':
                plan['none_at'] = 1 + int(q * max(1, ncall))
            elif cr['kind'] == 'raise_at':
                plan['raise_at'] = 1 + int(q * max(1, ncall))
            elif cr['kind'] == 'm':
                plan['m'] = 1 + int(q * max(1, sum(sizes[:ncall])))
            else:
                plan['cb_at'] = 1 + int(q * max(1, len(cur_twin.mon.snaps)))
        before = dict(cache)
        o = run_once(cfg, world, plan, cache=cache, Y0=Y0, info=shared)
        if shared is not None:
            o.info = dict(o.info)
            Fk('info_dict_reused_across_calls')
        runs += 1
        sim += o.sim_time
        tag = 'incarnation %d plan %s' % (ci + 1, cjson(plan))
        if o.failed is not None:
            # the objective crashed with an exception: nothing is returned, only the cache dictionary survives; it must hold
            # exactly the pairs evaluated so far (no reservation, no partial entry) and the next incarnation must cope with it
            Fk('crash_objective_exception')
            P('crash_raise')
            for b in o.f.served:
                for key in batch_key(b):
                    if key in evaluated or key in pre_keys:
                        V.append(viol(prop, 'exactly-once', '%s: index %s evaluated although it was known' % (tag, key)))
                        break
                    evaluated[key] = float(T[key])
            want = {k: float(T[k]) for k in pre_keys}
            want.update(evaluated)
            if dict(cache) != want:
                extra = [k for k in cache if k not in want][:3]
                missing = [k for k in want if k not in cache][:3]
                wrong = [k for k in cache if k in want and cache[k] != want[k]][:3]
                V.append(viol(prop, 'cache-content', '%s: after the objective raised, the surviving dictionary differs from pre-populated + evaluated pairs: extra %s (values %s) missing %s wrong-value %s'
                              % (tag, extra, [cache[k] for k in extra], missing, wrong)))
            if V:
                break
            continue
        if o.exc is not None or o.abort is not None or o.Y is None:
            V.append(viol(prop, 'exception', '%s: cached run failed: %r %r' % (tag, o.exc, o.abort)))
            break
        stop = o.info.get('stop')
        if cr is not None:
            if stop == 'func':
                Fk('crash_objective_none'); P('crash_none')
            elif stop == 'm':
                Fk('crash_budget'); P('crash_m')
            elif stop == 'cb':
                Fk('crash_callback'); P('crash_cb')
        # ---- durability / exactly-once over the whole sequence
        for b in o.f.served:
            for key in batch_key(b):
                if key in evaluated or key in pre_keys:
                    V.append(viol(prop, 'exactly-once', '%s: index %s evaluated although it was %s' %
                                  (tag, key, 'pre-populated' if key in pre_keys else 'evaluated by an earlier incarnation / call')))
                    break
                evaluated[key] = float(T[key])
        if o.f.none_fired:
            for key in batch_key(o.f.batches[-1]):
                if key in before:
                    V.append(viol(prop, 'exactly-once', '%s: index %s requested although cached' % (tag, key)))
                    break
        want = {k: float(T[k]) for k in pre_keys}
        want.update(evaluated)
        if dict(cache) != want:
            extra = [k for k in cache if k not in want][:3]
            missing = [k for k in want if k not in cache][:3]
            wrong = [k for k in cache if k in want and cache[k] != want[k]][:3]
            V.append(viol(prop, 'cache-content', '%s: surviving dictionary differs from pre-populated + evaluated pairs: extra %s missing %s wrong-value %s'
                          % (tag, extra, missing, wrong)))
        if any(type(v) is not float for v in cache.values()):
            pass
        # ---- transparency against the uncached twin with the same start tensor
        t = cur_twin
        nsw = len(o.mon.snaps)
        if stop in ('nswp', 'e', 'e_vld', 'conv', 'cb'):
            # stopped at a sweep boundary: tensor must equal the twin's tensor at that sweep
            if nsw > len(t.mon.snaps):
                V.append(viol(prop, 'transparency-nswp', '%s: cached run made %d sweeps, uncached twin %d' % (tag, nsw, len(t.mon.snaps))))
            elif nsw >= 1:
                ref = t.mon.snaps[nsw - 1]['Y']
                if tt_equal_bits(o.Y, ref):
                    P('transparency_bitwise')
                else:
                    err = rel_err(tt_full(o.Y), tt_full(ref)) if [G.shape for G in o.Y] == [G.shape for G in ref] or True else 1.0
                    if err > 1e-9:
                        V.append(viol(prop, 'transparency-cores', '%s: cached result differs from the uncached twin at sweep %d: rel. diff %.3e (stop=%s)'
                                      % (tag, nsw, err, stop)))
                    else:
                        P('transparency_not_bitwise')
                ti = t.mon.snaps[nsw - 1]['info']
                for key in ('e', 'e_vld', 'r'):
                    a, b = o.info.get(key), ti.get(key)
                    if a != b and not (abs(a - b) <= 1e-9 * max(1.0, abs(b))):
                        V.append(viol(prop, 'transparency-info', '%s: info[%s]=%r with cache, %r without (sweep %d)' % (tag, key, a, b, nsw)))
            if stop != 'conv' and cr is None and t.info.get('stop') in ('nswp', 'e', 'e_vld') and nsw != len(t.mon.snaps):
                V.append(viol(prop, 'transparency-nswp', '%s: cached run stopped (%s) after %d sweeps, uncached twin (%s) after %d'
                              % (tag, stop, nsw, t.info.get('stop'), len(t.mon.snaps))))
            # evaluation count never grows; requests are conserved
            tot = 0
            for ev in twin_trace(t):
                if ev[0] == 'batch':
                    tot += len(ev[1])
                elif ev[1] == nsw:
                    break
            if nsw >= 1 and o.info.get('m', 0) + o.info.get('m_cache', 0) != tot:
                V.append(viol(prop, 'transparency-count', '%s: m + m_cache = %r + %r but the uncached twin requested %d indices in %d sweeps'
                              % (tag, o.info.get('m'), o.info.get('m_cache'), tot, nsw)))
            if o.info.get('m', 0) > tot:
                V.append(viol(prop, 'transparency-count', '%s: cache increased the number of evaluations: %r > %d' % (tag, o.info.get('m'), tot)))
            if stop == 'conv':
                if not (o.info.get('m_cache', 0) > cfg['m_cache_scale'] * o.info.get('m', 0)):
                    V.append(viol(prop, 'conv', '%s: conv stop although m_cache=%r <= %r * m=%r' % (tag, o.info.get('m_cache'), cfg['m_cache_scale'], o.info.get('m'))))
                if o.info.get('m') == 0:
                    P('restart_all_from_cache_conv')
            if o.info.get('m_cache', 0) > 0 and o.info.get('m', 0) > 0:
                nontrivial += 1
        # per-sweep prefix equality (also for runs interrupted inside a sweep)
        for s_ in range(min(nsw, len(t.mon.snaps))):
            if not tt_equal_bits(o.mon.snaps[s_]['Y'], t.mon.snaps[s_]['Y']):
                err = rel_err(tt_full(o.mon.snaps[s_]['Y']), tt_full(t.mon.snaps[s_]['Y']))
                if err > 1e-9:
                    V.append(viol(prop, 'transparency-cores', '%s: tensor at sweep %d differs from the uncached twin: rel. diff %.3e' % (tag, s_ + 1, err)))
                    break
        if stop in ('nswp', 'e', 'e_vld', 'conv', 'cb', 'func', 'm'):
            check_info_truth(o, world, Ypre_cur, V, tag, stats)
        # reproduction holds at every interruption point once it has been reached: if the tensor at the last completed
        # sweep already equals an exact-rank target, a return from inside the next sweep (budget / objective None) does too
        if stop in ('func', 'm') and nsw >= 1 and cfg['target']['kind'] == 'tt' and not V:
            e_prev = rel_err(tt_full(o.mon.snaps[-1]['Y']), T)
            if e_prev <= 1e-11:
                e_now = rel_err(tt_full(o.Y), T)
                P('reproduction_checked_at_interruption')
                if not e_now <= 1e-8:
                    V.append(viol(prop, 'reproduction-interrupted', '%s: the tensor after sweep %d equals the target (rel. error %.1e) but the tensor returned '
                                  'from the interruption inside sweep %d has rel. error %.3e (stop=%s, %d objective calls)'
                                  % (tag, nsw, e_prev, nsw + 1, e_now, stop, o.f.calls)))
        h.append((cjson(plan), stop, o.info.get('m'), o.info.get('m_cache'), nsw, [G.tobytes() for G in o.Y]))
        if V:
            break
    # the caller's progress record has been through cached, interrupted and restarted calls: an uncached fault-free call that
    # re-uses it must still behave exactly like the twin
    if shared is not None and not V:
        o2 = run_once(cfg, world, {}, info=shared)
        runs += 1
        if o2.Y is None:
            V.append(viol(prop, 'exception', 'uncached call re-using the info dictionary failed: %r %r' % (o2.exc, o2.abort)))
        elif not tt_equal_bits(o2.Y, tw.Y) or o2.info.get('nswp') != tw.info.get('nswp') or o2.info.get('stop') != tw.info.get('stop') \
                or o2.info.get('m') != tw.info.get('m'):
            V.append(viol(prop, 'transparency-info-reuse', 'an uncached fault-free call that re-uses the info dictionary of earlier (cached / interrupted) calls differs from '
                          'the same call with a fresh dictionary: stop %r vs %r, sweeps %r vs %r, m %r vs %r, cores %s'
                          % (o2.info.get('stop'), tw.info.get('stop'), o2.info.get('nswp'), tw.info.get('nswp'), o2.info.get('m'), tw.info.get('m'),
                             'equal' if tt_equal_bits(o2.Y, tw.Y) else 'differ')))
    # evaluations over the whole sequence never exceed what the uncached run needs (same start tensor only)
    if same_y0 and scen['cache0'] != 'foreign' and not V:
        distinct = set()
        for ev in trace:
            if ev[0] == 'batch':
                distinct.update(ev[1])
        if len(evaluated) > len(distinct):
            V.append(viol(prop, 'transparency-count', 'incarnation sequence evaluated %d indices, the uncached twin requests only %d distinct ones'
                          % (len(evaluated), len(distinct))))
    # ---- info truth for the uncached twin as well
    if not V:
        check_info_truth(tw, world, Ypre, V, 'uncached twin', stats)
    # ---- reproduction and bounded liveness (on the twin, which the last incarnation equals bit for bit)
    if not V and cfg['target']['kind'] == 'tt':
        tr, cond = unfolding_ranks(T)
        fin = tw
        snaps = fin.mon.snaps
        if snaps and fin.info.get('stop') == 'nswp':
            prev = snaps[-2]['Y'] if len(snaps) >= 2 else Ypre
            rk_prev = [G.shape[2] for G in prev[:-1]]
            Ir, Ic = snaps[-1].get('Ir'), snaps[-1].get('Ic')
            reached = all(a >= b for a, b in zip(rk_prev, tr))
            if cond > 1e5:
                P('reproduction_skipped_illconditioned')
            elif reached:
                err = rel_err(tt_full(fin.Y), T)
                P('reproduction_checked')
                nontrivial += 1
                if not err <= 1e-8:
                    V.append(viol(prop, 'reproduction', 'target of TT-ranks %s (cond %.1e): ranks at the start of the last sweep %s >= true ranks but rel. error %.3e (nswp=%d dr=%d/%d r0=%d)'
                                  % (tr, cond, rk_prev, err, len(snaps), cfg['dr_min'], cfg['dr_max'], cfg['y0']['r'])))
            # every interruption point of the sweep that follows the first exact sweep (uncached, objective returns None at call k)
            if cond <= 1e5 and len(snaps) >= 2:
                errs = [rel_err(tt_full(sn['Y']), T) for sn in snaps]
                exact = [i for i, e in enumerate(errs[:-1]) if e <= 1e-11]
                if exact:
                    s0 = exact[0]                       # snapshot index: sweep s0+1 is exact
                    calls_before = 0
                    sweeps_seen = 0
                    first = last = None
                    for ev in fin.events:
                        if ev[0] == 'f':
                            calls_before += 1
                            if sweeps_seen == s0 + 1:
                                first = first or calls_before
                                last = calls_before
                        else:
                            sweeps_seen += 1
                    for kcall in range(first or 1, (last or 0) + 1):
                        oi = run_once(cfg, world, {'none_at': kcall}, keep_tensors=False)
                        runs += 1
                        Fk('objective_none_after_exact_sweep')
                        if oi.Y is None:
                            V.append(viol(prop, 'exception', 'interruption at objective call %d (sweep %d) failed: %r %r' % (kcall, s0 + 2, oi.exc, oi.abort)))
                            break
                        e_now = rel_err(tt_full(oi.Y), T) if wellformed_tt(oi.Y, n) is None else float('inf')
                        P('reproduction_checked_at_interruption')
                        if not e_now <= 1e-8:
                            V.append(viol(prop, 'reproduction-interrupted', 'the tensor after sweep %d equals the target (rel. error %.1e) but the tensor returned when the '
                                          'objective gives None at call %d (inside sweep %d, calls %d..%d) has rel. error %.3e (dr=%d/%d)'
                                          % (s0 + 1, errs[s0], kcall, s0 + 2, first, last, e_now, cfg['dr_min'], cfg['dr_max'])))
                            break
            if scen.get('expect') in ('grow', 'fixed') and cond <= 1e5:
                P('liveness_checked')
                if not reached:
                    V.append(viol(prop, 'liveness', 'working ranks %s did not reach the true ranks %s within %d sweeps (mode %s, dr_min=%d, r0=%d)'
                                  % (rk_prev, tr, len(snaps), scen['expect'], cfg['dr_min'], cfg['y0']['r'])))
    sample = {'cfg': cfg, 'cache0': scen['cache0'], 'crashes': scen['crashes'],
              'outcomes': [(x[0], x[1], x[2], x[3], x[4]) for x in h]}
    return {'violations': V, 'runs': runs, 'stats': stats, 'digest': dig(h), 'nontrivial': nontrivial,
            'sim_time': sim, 'sample': sample}


def execute(scen):
    scen = copy.deepcopy(scen)
    if scen['mode'] == 'enumerate':
        return execute_enumerate(scen)
    return execute_incarnations(scen)


# ------------------------------------------------------------------ minimisation

def shrink(scen, v):
    """Yield simpler scenarios (most aggressive first)."""
    def cp():
        return copy.deepcopy(scen)
    cfg = scen['cfg']
    if scen['mode'] == 'enumerate':
        if scen.get('plans') is None and v.get('plan') is not None:
            s = cp(); s['plans'] = [v['plan']]; yield s
        if scen.get('plans'):
            p = scen['plans'][0]
            if p.get('cache', 'none') != 'none':
                s = cp(); s['plans'][0]['cache'] = 'none'; yield s
                s = cp(); s['plans'][0]['cache'] = 'empty'; yield s
            for key in ('none_at', 'm', 'cb_at'):
                if p.get(key) is not None:
                    others = [k for k in ('none_at', 'm', 'cb_at') if k != key and p.get(k) is not None]
                    if others:
                        s = cp(); del s['plans'][0][key]; yield s
                    if p[key] > 1:
                        s = cp(); s['plans'][0][key] = p[key] // 2; yield s
                        s = cp(); s['plans'][0][key] = p[key] - 1; yield s
    else:
        for i in range(len(scen['crashes'])):
            s = cp(); del s['crashes'][i]; yield s
        if scen['cache0'] != 'empty':
            s = cp(); s['cache0'] = 'empty'; yield s
        for i, c in enumerate(scen['crashes']):
            if c.get('fresh_y0'):
                s = cp(); s['crashes'][i]['fresh_y0'] = False; yield s
    # configuration
    if scen.get('share_info'):
        s = cp(); s['share_info'] = False; yield s
    if cfg['target'].get('scale'):
        s = cp(); s['cfg']['target'].pop('scale'); yield s
    for key, val in (('log', False), ('latency', []), ('jumps', {}), ('ret_list', False), ('ret', 'f64'), ('memo', False), ('cb_cont', None), ('cache_type', 'dict'), ('e', None),
                     ('e_vld', None), ('vld', None), ('k0', 100), ('tau', 1.1), ('tau0', 1.05), ('m_cache_scale', 5)):
        if cfg.get(key) != val:
            s = cp(); s['cfg'][key] = val
            if key == 'vld':
                s['cfg']['e_vld'] = None
            yield s
    if len(cfg['n']) > 2:
        s = cp(); s['cfg']['n'] = cfg['n'][:-1]; yield s
        s = cp(); s['cfg']['n'] = cfg['n'][1:]; yield s
    for k in range(len(cfg['n'])):
        if cfg['n'][k] > 1:
            s = cp(); s['cfg']['n'][k] -= 1; yield s
    if cfg['nswp'] is not None and cfg['nswp'] > 0:
        s = cp(); s['cfg']['nswp'] -= 1; yield s
    if cfg['y0']['r'] > 1:
        s = cp(); s['cfg']['y0']['r'] -= 1; yield s
    if cfg['dr_max'] > cfg['dr_min']:
        s = cp(); s['cfg']['dr_max'] -= 1; yield s
    if cfg['dr_min'] > 0:
        s = cp(); s['cfg']['dr_min'] -= 1; s['cfg']['dr_max'] = max(s['cfg']['dr_max'] - 1, s['cfg']['dr_min']); yield s
    if cfg['target']['kind'] == 'tt' and cfg['target']['rho'] > 1:
        s = cp(); s['cfg']['target']['rho'] -= 1; yield s
    if cfg['target']['kind'] == 'rand':
        s = cp(); s['cfg']['target'] = {'kind': 'sum', 'tseed': 0}; yield s
