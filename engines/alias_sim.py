"""alias_sim: a simulated caller that owns a pool of objects (TT-tensors in varied memory
layouts, arrays, index batches, lists, dicts) and a library it calls. The shared resource
is memory; the history is a seeded sequence of operations:

  call      any exported function with documented arguments drawn from the pool / built fresh;
            results enter the pool and are re-fed to later calls
  scribble  the caller overwrites every array reachable from one of ITS objects (fault)
  recheck   a closure handed back earlier is evaluated again

Reference model: a deep byte snapshot of every pool object, compared after every operation
and at every callback invocation; np.shares_memory between results and arguments."""
import copy
import io
import contextlib
import threading

import numpy as np

from sim import boot
from sim.util import SimAbort, cjson, dig
from sim.world import gen, make_tt
from catalog import api

teneva = boot.boot()

NAME = 'alias_sim'
LEVEL = {'C09': 'exploration'}
RULE = {'C09': 'scenario = seeded history of <= 14 operations (call / scribble / recheck) over a pool of caller-owned objects of one tensor shape '
               '(d 2..4, n_k 1..5); arguments are re-laid out (C, Fortran, strided view, negative stride, read-only, offset view) and results are '
               're-fed into later calls; evaluations = library calls executed; a case is non-trivial when the history contains at least one call that '
               'returned arrays and at least one later scribble or re-use of a result; distinct = distinct scenario digests. Entries are drawn '
               'coverage-first so that every catalogued function occurs.'}
COMPONENTS = {
    'real': ['all 98 exported callables of teneva (catalog/api.py), numpy, scipy'],
    'stub': ['the caller: object pool, layouts, scribble writes', 'callbacks handed to the library (objective, sweep callback, basis functions, samplers): monitor points',
             'byte-snapshot reference model of the pool'],
}
ASSUMPTIONS = {'C09': ['documented exceptions are encoded per catalogue entry: inplace=True of orthogonalize_left/right, info / cache dictionaries, '
                       'pass-through helpers (grid_prep_opt(s), core_stab below its threshold, copy of a number / None)',
                       'undocumented or experimental keywords are not exercised; class instances (ANOVA, ANOVA_func) are not tensors: only the '
                       'tensors their methods return are checked']}
EXPECTED_PROBES = {'C09': ['scribble_ops', 'result_reused', 'layout_F', 'layout_strided', 'layout_neg', 'layout_readonly', 'callback_monitor_points',
                           'inplace_calls', 'passthrough_calls', 'recheck_ops']}
BUDGET = {'C09': {'quick': {'n': 24000, 'max_s': 150, 'chunk': 100}, 'thorough': {'n': 1500000, 'max_s': 3000, 'chunk': 200}}}
NAMES = sorted(api.ENTRIES)
LAYOUTS = ['C', 'C', 'F', 'strided', 'neg', 'readonly', 'offset']
WEIGHTED = [nm for nm in NAMES for _ in range(api.ENTRIES[nm]['weight'])]


# ------------------------------------------------------------------ snapshots and memory

def snap(o):
    if isinstance(o, np.ndarray):
        return ('A', o.shape, o.dtype.str, o.tobytes())
    if isinstance(o, list):
        return ('L', tuple(id(x) for x in o), tuple(snap(x) for x in o))
    if isinstance(o, tuple):
        return ('T', tuple(id(x) for x in o), tuple(snap(x) for x in o))
    if isinstance(o, dict):
        ks = sorted(o, key=repr)
        return ('D', tuple(repr(k) for k in ks), tuple(snap(o[k]) for k in ks))
    if callable(o):
        return ('F',)
    return ('V', repr(o))


def diff(s, o, path='obj'):
    """First difference between snapshot s and the object as it is now (None if equal)."""
    t = snap_head(o)
    if t != s[0]:
        return '%s changed type' % path
    if t == 'A':
        if o.shape != s[1]:
            return '%s changed shape %s -> %s' % (path, s[1], o.shape)
        if o.dtype.str != s[2]:
            return '%s changed dtype' % path
        if o.tobytes() != s[3]:
            old = np.frombuffer(s[3], dtype=o.dtype).reshape(o.shape)
            k = int(np.argmax((old != o).reshape(-1))) if o.size else 0
            return '%s changed content (%d of %d elements differ, first at flat index %d: %r -> %r)' % (
                path, int((old != o).sum()), o.size, k, old.reshape(-1)[k].item() if o.size else None, o.reshape(-1)[k].item() if o.size else None)
        return None
    if t in ('L', 'T'):
        if len(o) != len(s[1]):
            return '%s changed length %d -> %d' % (path, len(s[1]), len(o))
        for i, x in enumerate(o):
            if id(x) != s[1][i] and not isinstance(x, (int, float, str, type(None), np.integer, np.floating)):
                return '%s[%d] was replaced by another object' % (path, i)
            d = diff(s[2][i], x, '%s[%d]' % (path, i))
            if d:
                return d
        return None
    if t == 'D':
        ks = sorted(o, key=repr)
        if tuple(repr(k) for k in ks) != s[1]:
            return '%s changed its keys' % path
        for k, sv in zip(ks, s[2]):
            d = diff(sv, o[k], '%s[%r]' % (path, k))
            if d:
                return d
        return None
    if t == 'V' and repr(o) != s[1]:
        return '%s changed value %s -> %r' % (path, s[1], o)
    return None


def snap_head(o):
    if isinstance(o, np.ndarray):
        return 'A'
    if isinstance(o, list):
        return 'L'
    if isinstance(o, tuple):
        return 'T'
    if isinstance(o, dict):
        return 'D'
    if callable(o):
        return 'F'
    return 'V'


def arrays_of(o, out=None, depth=0):
    out = [] if out is None else out
    if isinstance(o, np.ndarray):
        out.append(o)
    elif isinstance(o, (list, tuple)) and depth < 6:
        for x in o:
            arrays_of(x, out, depth + 1)
    elif isinstance(o, dict) and depth < 6:
        for x in o.values():
            arrays_of(x, out, depth + 1)
    return out


def containers_of(o, out=None, depth=0):
    out = [] if out is None else out
    if isinstance(o, (list, dict)):
        out.append(o)
        if depth < 6:
            for x in (o.values() if isinstance(o, dict) else o):
                containers_of(x, out, depth + 1)
    elif isinstance(o, tuple) and depth < 6:
        for x in o:
            containers_of(x, out, depth + 1)
    return out


def shares(a, b):
    if a.size == 0 or b.size == 0:
        return False
    if not np.may_share_memory(a, b):
        return False
    try:
        return bool(np.shares_memory(a, b, max_work=10 ** 6))
    except Exception:
        return True


def relayout(a, kind, g):
    """Same values, another memory layout."""
    if not isinstance(a, np.ndarray) or a.ndim == 0:
        return a
    if kind == 'C':
        return np.array(a, order='C', copy=True)
    if kind == 'F':
        return np.array(a, order='F', copy=True)
    if kind == 'readonly':
        b = np.array(a, copy=True)
        b.setflags(write=False)
        return b
    if kind == 'strided':
        shp = list(a.shape)
        shp[-1] = shp[-1] * 2 + 1
        buf = np.full(shp, 7, dtype=a.dtype)
        v = buf[..., 1::2][..., :a.shape[-1]]
        v[...] = a
        return v
    if kind == 'neg':
        buf = np.array(a[::-1], copy=True)
        return buf[::-1]
    if kind == 'offset':
        shp = [s + 2 for s in a.shape]
        buf = np.full(shp, 3, dtype=a.dtype)
        sl = tuple(slice(1, 1 + s) for s in a.shape)
        buf[sl] = a
        return buf[sl]
    return a


# ------------------------------------------------------------------ the caller's pool and argument context

class Pool:
    def __init__(self):
        self.objs = []       # dict(obj, snap, kind, tag, links=set of pool indices sharing memory by the caller's construction / documented pass-through)

    def add(self, obj, kind, tag, links=()):
        self.objs.append({'obj': obj, 'snap': snap(obj), 'kind': kind, 'tag': tag, 'links': set(links)})
        return len(self.objs) - 1

    def find(self, obj):
        for i, p in enumerate(self.objs):
            if p['obj'] is obj:
                return i
        return None

    def closure(self, idxs):
        """Pool entries that legitimately change together with the given ones: linked by the caller's own
        construction / a documented pass-through (transitively), or the very same object registered twice."""
        out = set(idxs)
        grew = True
        while grew:
            grew = False
            for j in list(out):
                for l in self.objs[j]['links']:
                    if l not in out:
                        out.add(l)
                        grew = True
                for i, p in enumerate(self.objs):
                    if i not in out and p['obj'] is self.objs[j]['obj']:
                        out.add(i)
                        grew = True
        return out

    def tts(self, n):
        out = []
        for i, p in enumerate(self.objs):
            o = p['obj']
            if p['kind'] == 'tt' and isinstance(o, list) and len(o) == len(n) and \
                    all(isinstance(G, np.ndarray) and G.ndim == 3 and G.shape[1] == k for G, k in zip(o, n)):
                rr = [1] + [G.shape[2] for G in o]
                if all(G.shape[0] == r for G, r in zip(o, rr)) and rr[-1] == 1 and max(rr) <= 12 \
                        and all(np.all(np.isfinite(G)) for G in o):
                    out.append(i)
        return out


class PoolCtx:
    def __init__(self, argseed, n, pool, stats, reuse=0.6, layouts=True):
        self.rng = gen(argseed)
        self.n = list(n)
        self.pool = pool
        self.stats = stats
        self.reuse = reuse
        self.layouts = layouts
        self.used = []        # pool indices handed out for this call
        self.monitor_fn = None

    def _lay(self, a, writable=False):
        if not self.layouts:
            return a
        kinds = [k for k in LAYOUTS if not (writable and k == 'readonly')]
        k = kinds[int(self.rng.integers(0, len(kinds)))]
        self.stats['probe.layout_' + k] = self.stats.get('probe.layout_' + k, 0) + 1
        return relayout(a, k, self.rng)

    def tt(self, r=None, writable=False):
        cands = self.pool.tts(self.n)
        if r is not None:
            cands = [i for i in cands if max(G.shape[2] for G in self.pool.objs[i]['obj']) <= r]
        if writable:
            cands = [i for i in cands if all(G.flags.writeable for G in self.pool.objs[i]['obj'])]
        if cands and self.rng.random() < self.reuse:
            i = cands[int(self.rng.integers(0, len(cands)))]
            self.used.append(i)
            if self.pool.objs[i]['tag'].startswith('result'):
                self.stats['probe.result_reused'] = self.stats.get('probe.result_reused', 0) + 1
            return self.pool.objs[i]['obj']
        r = r or int(self.rng.integers(1, 4))
        Y = make_tt(self.n, r, int(self.rng.integers(1 << 30)), dist='uniform')
        Y = [self._lay(G, writable) for G in Y]
        i = self.pool.add(Y, 'tt', 'fresh-tt')
        self.used.append(i)
        return Y

    def tt_shape(self, n, r):
        return make_tt(list(n), r, int(self.rng.integers(1 << 30)), dist='uniform')

    def idx(self, m):
        I = np.stack([self.rng.integers(0, k, m) for k in self.n], axis=1)
        return self.own(I)

    def ind(self):
        return self.own(np.array([int(self.rng.integers(0, k)) for k in self.n]))

    def seed(self):
        return int(self.rng.integers(0, 1 << 31))

    def own(self, obj, shallow=False):
        if isinstance(obj, (int, float, str, type(None))) and not isinstance(obj, bool):
            return obj
        links = ()
        if shallow and isinstance(obj, list):
            links = [j for j in (self.pool.find(x) for x in obj) if j is not None]
        elif isinstance(obj, np.ndarray):
            obj = self._lay(obj)
        elif isinstance(obj, list) and obj and all(isinstance(x, np.ndarray) for x in obj):
            obj = [self._lay(x) for x in obj]
        i = self.pool.add(obj, 'tt' if (isinstance(obj, list) and obj and all(isinstance(x, np.ndarray) and x.ndim == 3 for x in obj)) else 'arg',
                          'arg', links)
        for j in links:
            self.pool.objs[j]['links'].add(i)
        self.used.append(i)
        return obj

    def monitor(self, tag):
        if self.monitor_fn is not None:
            self.monitor_fn(tag)


# ------------------------------------------------------------------ scenario generation

def generate(rng, prop, tier):
    d = rng.choice([2, 2, 3, 3, 4])
    if rng.random() < 0.06:
        d = 1               # one-core tensors: many functions reject them, those that accept them must not alias either
    n = [rng.choice([1, 2, 2, 3, 3, 4, 5]) for _ in range(d)]
    if rng.random() < 0.25:
        n = [rng.choice([2, 4])] * d
    nops = rng.randint(3, 14)
    ops = []
    for k in range(nops):
        u = rng.random()
        if u < 0.68 or k == 0:
            ops.append({'op': 'call', 'entry': rng.choice(NAMES) if rng.random() < 0.4 else rng.choice(WEIGHTED), 'argseed': rng.randrange(1 << 30)})
            if rng.random() < 0.05:
                # fault: the k-th call of a LAPACK routine inside this library call does not converge
                ops[-1]['lapack_fail'] = [rng.choice(['svd', 'svd', 'qr', 'lstsq', 'rq']), rng.randint(1, 3)]
            if ops[-1]['entry'] == 'cdf_getter' and rng.random() < 0.7:
                # a function was handed back: the caller changes the data it was built from and evaluates it again
                ops.append({'op': 'scribble', 'target': 0, 'how': 'fill', 'last_args': True})
                ops.append({'op': 'recheck', 'target': rng.randrange(1 << 30)})
        elif u < 0.93:
            ops.append({'op': 'scribble', 'target': rng.randrange(1 << 30), 'how': rng.choice(['fill', 'fill', 'negate', 'listop'])})
        else:
            ops.append({'op': 'recheck', 'target': rng.randrange(1 << 30)})
    return {'engine': NAME, 'n': n, 'ops': ops}


def viol(oracle, detail):
    return {'property': 'C09', 'oracle': oracle, 'detail': detail}


def summarise(stats):
    called = [nm for nm in NAMES if stats.get('calls.' + nm, 0) > 0]
    return {'functions_in_catalogue': len(NAMES), 'functions_called': len(called),
            'functions_never_called': [nm for nm in NAMES if nm not in called],
            'uncatalogued_exports': api.uncatalogued(),
            'functions_that_never_returned': sorted(nm for nm in called if stats.get('call_failed.' + nm, 0) >= stats.get('calls.' + nm, 0))}


def execute(sc):
    sc = copy.deepcopy(sc)
    n = sc['n']
    pool = Pool()
    V = []
    stats = {}
    P = lambda k, c=1: stats.__setitem__('probe.' + k, stats.get('probe.' + k, 0) + c)
    Fk = lambda k, c=1: stats.__setitem__('fault.' + k, stats.get('fault.' + k, 0) + c)
    h = []
    runs = 0
    covered = set()
    closures = []         # (pool index of closure-producing call's args, post, digest)
    produced = False
    later_use = False
    last_used = set()

    def check_pool(exempt, when, call_used=()):
        for i, p in enumerate(pool.objs):
            if i in exempt:
                continue
            dff = diff(p['snap'], p['obj'])
            if dff:
                role = 'argument' if i in call_used else 'object not involved in the call'
                return i, '%s: %s of the caller (%s, pool #%d) was modified: %s' % (when, role, p['tag'], i, dff)
        return None

    for k, op in enumerate(sc['ops']):
        if V:
            break
        if op['op'] == 'call':
            name = op['entry']
            ctx = PoolCtx(op['argseed'], n, pool, stats)
            try:
                call = api.build(name, ctx)
            except Exception as e:
                stats['build_failed.' + name] = stats.get('build_failed.' + name, 0) + 1
                continue
            used = set(ctx.used)
            last_used = set(used)
            exempt = set()
            for m in call.mutable:
                obj = call.args[m] if isinstance(m, int) else call.kwargs.get(m)
                j = pool.find(obj)
                if j is not None:
                    exempt.add(j)
            exempt = pool.closure(exempt)
            if call.mutable and any(isinstance(m, int) for m in call.mutable):
                P('inplace_calls')
            mon = {'n': 0, 'bad': None}

            def monitor(tag, exempt=exempt, used=used, name=name):
                mon['n'] += 1
                if mon['bad'] is None and mon['n'] <= 40:
                    r = check_pool(exempt, 'during %s, at callback %s (invocation %d)' % (name, tag, mon['n']), used)
                    if r:
                        mon['bad'] = r
            ctx.monitor_fn = monitor
            arg_arrays = []
            for a in list(call.args) + list(call.kwargs.values()):
                arrays_of(a, arg_arrays)
            arg_conts = []
            for a in list(call.args) + list(call.kwargs.values()):
                containers_of(a, arg_conts)
            res = None
            err = None
            runs += 1
            plan_l = op.get('lapack_fail')
            try:
                if plan_l:
                    from engines import history_sim as _hs          # owns the wrappers around the numpy / scipy entry points
                    _hs.LAPACK_PLAN[threading.get_ident()] = [plan_l[0], plan_l[1], 0]
                    fired0 = _hs.LAPACK_FIRED[0]
                with contextlib.redirect_stdout(io.StringIO()):
                    res = call.run()
            except SimAbort:
                raise
            except Exception as e:
                err = e
            finally:
                if plan_l:
                    _hs.LAPACK_PLAN.pop(threading.get_ident(), None)
                    if _hs.LAPACK_FIRED[0] > fired0:
                        stats['fault.lapack_routine_failed'] = stats.get('fault.lapack_routine_failed', 0) + 1
            covered.add(name)
            stats['calls.' + name] = stats.get('calls.' + name, 0) + 1
            if mon['n']:
                P('callback_monitor_points', mon['n'])
            if mon['bad']:
                V.append(viol('argument-modified-during-call', mon['bad'][1]))
                break
            if err is not None:
                msg = str(err)
                if 'read-only' in msg or 'readonly' in msg:
                    V.append(viol('write-attempt', '%s(%s) tried to write into a read-only argument: %s: %s'
                                  % (name, ', '.join(sorted(call.kwargs)), type(err).__name__, msg[:200])))
                    break
                stats['call_failed.' + name] = stats.get('call_failed.' + name, 0) + 1
            # 1/2: every object of the caller is unchanged, except the documented ones
            r = check_pool(exempt, 'after %s(%s)' % (name, ', '.join('%s=%r' % (kk, vv) for kk, vv in sorted(call.kwargs.items())
                                                                     if isinstance(vv, (int, float, str, bool, type(None))))), used)
            if r:
                V.append(viol('argument-modified' if r[0] in used else 'other-object-modified', r[1]))
                break
            for j in exempt:
                pool.objs[j]['snap'] = snap(pool.objs[j]['obj'])
            h.append((name, None if err is None else type(err).__name__))
            if err is not None:
                continue
            # 3: results do not alias arguments
            res_arrays = arrays_of(res)
            res_conts = containers_of(res)
            if call.passthrough:
                P('passthrough_calls')
            else:
                hit = None
                for ra in res_arrays:
                    for aa in arg_arrays:
                        if ra is aa or shares(ra, aa):
                            hit = 'an array of the result of %s shares memory with an argument array (shape %s)' % (name, aa.shape)
                            break
                    if hit:
                        break
                if not hit:
                    for rc in res_conts:
                        if any(rc is ac for ac in arg_conts):
                            hit = 'the result of %s contains / is the very same %s object that was passed in' % (name, type(rc).__name__)
                            break
                if hit:
                    V.append(viol('result-aliases-argument', hit + ' (keywords %s)' % sorted(call.kwargs)))
                    break
            if res_arrays:
                produced = True
                links = set()
                if call.passthrough:
                    links = set(used)
                i = pool.add(res, 'tt' if isinstance(res, list) else 'result', 'result:' + name, links)
                for j in links:
                    pool.objs[j]['links'].add(i)
            if call.post is not None and name in ('cdf_getter',):
                try:
                    closures.append((res, call.post, dig(call.post(res)), name))
                except Exception:
                    pass
            h.append(dig(res) if not callable(res) and not hasattr(res, '__dict__') else 'obj')
        elif op['op'] == 'scribble':
            if not pool.objs:
                continue
            i = op['target'] % len(pool.objs)
            if op.get('last_args') and last_used:
                i = sorted(last_used)[0]
            p = pool.objs[i]
            arrs = [a for a in arrays_of(p['obj']) if a.flags.writeable]
            if op['how'] == 'listop' and isinstance(p['obj'], list) and p['obj']:
                p['obj'].append(p['obj'][0])
                p['obj'].pop(0)
            elif not arrs:
                continue
            else:
                for a in arrs:
                    if op['how'] == 'negate' and a.dtype.kind == 'f':
                        a *= -1.0
                        a += 0.125
                    elif a.dtype.kind == 'f':
                        a[...] = 123456.789
                    elif a.dtype.kind in 'iu':
                        a[...] = 0
            Fk('scribble')
            P('scribble_ops')
            if produced:
                later_use = True
            exempt = pool.closure({i})
            r = check_pool(exempt, 'after the caller wrote into its own object #%d (%s)' % (i, p['tag']))
            if r:
                q = pool.objs[r[0]]
                V.append(viol('write-through', '%s; i.e. #%d (%s) and #%d (%s) share memory although neither was built from the other by the caller'
                              % (r[1], i, p['tag'], r[0], q['tag'])))
                break
            for j in exempt:
                pool.objs[j]['snap'] = snap(pool.objs[j]['obj'])
            h.append(('scribble', i))
        else:
            if not closures:
                continue
            res, post, dg, name = closures[op['target'] % len(closures)]
            P('recheck_ops')
            try:
                now = dig(post(res))
            except Exception as e:
                now = 'raised %r' % (e,)
            if now != dg:
                V.append(viol('closure-depends-on-argument', 'the function returned by %s gives different values after the caller modified its own data' % name))
                break
    if any(pool.objs[i]['tag'].startswith('result') for i in range(len(pool.objs))) and stats.get('probe.result_reused'):
        later_use = True
    sample = {'n': n, 'ops': [(o['op'], o.get('entry') or o.get('how') or '') for o in sc['ops']]}
    return {'violations': V, 'runs': runs, 'stats': stats, 'digest': dig(h, [v['oracle'] for v in V]),
            'nontrivial': 1 if (produced and later_use) else 0, 'sim_time': 0.0, 'sample': sample, 'covered': sorted(covered)}


def shrink(sc, v):
    def cp():
        return copy.deepcopy(sc)
    ops = sc['ops']
    for i in range(len(ops) - 1, -1, -1):
        if len(ops) > 1:
            s = cp(); del s['ops'][i]; yield s
    if len(sc['n']) > 2:
        s = cp(); s['n'] = sc['n'][:-1]; yield s
    for k in range(len(sc['n'])):
        if sc['n'][k] > 1:
            s = cp(); s['n'][k] -= 1; yield s
