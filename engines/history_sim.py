"""history_sim: results depend only on arguments and seed (C10).

K simulated clients (real threads) run scripts of library calls. Exactly one thread holds
the baton; the simulator's seeded scheduler (main thread) picks the next holder at every
yield point: entry and exit of every call, every objective / sweep / basis callback, every
draw of an instrumented generator. Between steps it fires perturbations: reseed / advance /
restore the global NumPy generator, jump the virtual clock, scribble on results obtained
earlier. Every call is also executed in isolation in a canonical world; the interleaved,
perturbed execution must return bit-identical results."""
import copy
import sys
import threading

import numpy as np

from sim import boot
from sim.boot import CLOCK
from sim.util import SimAbort, cjson, dig
from sim.world import poison_heap
from catalog import api
from catalog.ctx import FreshCtx

teneva = boot.boot()

NAME = 'history_sim'
PROCESS_HISTORY = True      # the kernel compares warm-process digests with fresh-interpreter digests (oracle process-history-dependence)
LEVEL = {'C10': 'exploration'}
RULE = {'C10': 'scenario = 1..4 client scripts of catalogue calls (int seeds and generator objects, optional dictionaries omitted or supplied, '
               'repeated calls) plus a scheduler seed; evaluations = library calls executed (isolated references + interleaved history); a case is '
               'non-trivial when the history had at least one context switch inside a call or one perturbation of global state between two of its '
               'calls; distinct = distinct scenario digests; distinct_interleavings = distinct schedule digests (sequence of (client, yield point)).'}
COMPONENTS = {
    'real': ['all exported callables of teneva (catalog/api.py), numpy Generator / RandomState'],
    'stub': ['client threads and the baton-passing scheduler', 'callbacks (objective, sweep, basis, sampler) as yield points',
             'instrumented Generator subclass (every draw is a yield point; stream identical to default_rng(seed))',
             'global-state perturbations (numpy global generator, virtual clock, scribbles on earlier results)'],
}
ASSUMPTIONS = {'C10': ['overlapping calls of the same function that both rely on the same omitted default dictionary are out of scope (DESIGN 3.5): '
                       'a call that omits info / cache is not pre-empted by other clients (perturbations still fire inside it)',
                       'calls with seed=None, rand_custom with its default sampler and long-lived ANOVA objects are excluded (documented randomness / object state)',
                       'not covered: dependence of results on the caller\'s own np.seterr settings, on warning filters, on the BLAS thread count, on OS entropy (a call that CHANGES the error state is reported)']}
EXPECTED_PROBES = {'C10': ['context_switch_inside_call', 'draw_yield_points', 'callback_yield_points', 'default_dict_calls', 'generator_object_calls',
                           'repeated_calls']}
BUDGET = {'C10': {'quick': {'n': 5000, 'max_s': 150, 'chunk': 20}, 'thorough': {'n': 200000, 'max_s': 3000, 'chunk': 25}}}
NAMES = sorted(api.ENTRIES)
SEEDED = [nm for nm in NAMES if nm in ('anova_from_file', 'rand', 'rand_norm', 'rand_stab', 'core_qr_rand', 'sample', 'sample_square', 'sample_lhs', 'sample_rand',
                                       'sample_rand_poi', 'sample_tt', 'sample_func', 'anova', 'ANOVA', 'cross_act')]
DEFAULT_DICT = ['cross', 'als', 'als_func', 'cache_to_data', 'als_swap_default_info', 'als_vld_default_info']
SOLVERS = ['cross', 'als', 'als_func', 'cross_act']
# entries whose callbacks carry state across invocations: not eligible for "call again after the caller changed its data"
REMOD_EXCLUDED = {'cross', 'als', 'rand_custom', 'getter', 'show', 'anova_from_file', 'als_swap_default_info', 'als_vld_default_info'}


# ------------------------------------------------------------------ instrumented generator and world control

class YGen(np.random.Generator):
    """Generator whose every draw is a yield point of the scheduler; the stream is untouched."""

    draws = 0

    def _y(self, what):
        self.draws += 1
        s = SCHED[0]
        if s is not None:
            s.point_current('draw:' + what)

    def _rare(self, a, k, v):
        # rare-draw fault: the j-th scalar draw of the current library call is replaced by a legal but extreme value (the
        # stream still advances). The plan is part of the call's specification, so the isolated reference and the history
        # see the same draws: a branch the library takes for one draw in ten thousand is entered on purpose
        plan = RARE_PLAN.get(threading.get_ident())
        if plan is None or a or k:
            return v
        plan[2] += 1
        if plan[2] == plan[0]:
            RARE_HITS[0] += 1
            return float(plan[1])
        return v

    def _rare_vec(self, a, k, v):
        # the same fault for an array draw uniform(low, high, size): one element becomes exactly `low` or exactly `high` (numpy
        # documents that rounding may include the upper limit)
        plan = RARE_PLAN.get(threading.get_ident())
        if plan is None or not isinstance(v, np.ndarray) or v.size == 0 or v.dtype != np.float64:
            return v
        plan[2] += 1
        if plan[2] != plan[0]:
            return v
        lim = (k.get('low', a[0] if len(a) > 0 else 0.0)) if plan[1] < 0.5 else (k.get('high', a[1] if len(a) > 1 else 1.0))
        try:
            lb = np.broadcast_to(np.asarray(lim, dtype=float), v.shape)
        except (ValueError, TypeError):
            return v
        j = v.size // 2
        v.reshape(-1)[j] = lb.reshape(-1)[j]
        RARE_HITS[0] += 1
        return v

    def uniform(self, *a, **k):
        self._y('uniform')
        v = super().uniform(*a, **k)
        return self._rare_vec(a, k, v) if (a or k) else self._rare(a, k, v)

    def normal(self, *a, **k):
        self._y('normal'); return super().normal(*a, **k)

    def standard_normal(self, *a, **k):
        self._y('standard_normal'); return super().standard_normal(*a, **k)

    def random(self, *a, **k):
        self._y('random'); return self._rare(a, k, super().random(*a, **k))

    def choice(self, *a, **k):
        self._y('choice'); return super().choice(*a, **k)

    def shuffle(self, *a, **k):
        self._y('shuffle'); return super().shuffle(*a, **k)

    def permutation(self, *a, **k):
        self._y('permutation'); return super().permutation(*a, **k)

    def integers(self, *a, **k):
        self._y('integers'); return super().integers(*a, **k)


SCHED = [None]
RARE_PLAN = {}      # thread id -> [index of the scalar draw to replace, value, draws seen] for the call running on that thread
RARE_HITS = [0]
_orig_default_rng = np.random.default_rng


def _default_rng(seed=None):
    if isinstance(seed, (int, np.integer)) and not isinstance(seed, bool):
        return YGen(np.random.PCG64(int(seed)))
    return _orig_default_rng(seed)


if getattr(np.random.default_rng, '__name__', '') != '_default_rng':
    np.random.default_rng = _default_rng


def default_dicts():
    """The module-level mutable default dictionaries of the library (found by inspection)."""
    out = []
    for nm in NAMES:
        fn = getattr(teneva, nm, None)
        if fn is None:
            continue
        for dflt in list(getattr(fn, '__defaults__', None) or ()) + list((getattr(fn, '__kwdefaults__', None) or {}).values()):
            if isinstance(dflt, dict):
                out.append((nm, dflt))
    return out


def canonical_world():
    np.random.seed(12345)
    np.set_printoptions(threshold=1000, edgeitems=3, precision=8, linewidth=75)
    for _, dct in default_dicts():
        dct.clear()
    CLOCK.reset()


class Sink:
    def write(self, s):
        return len(s)

    def flush(self):
        pass


# ------------------------------------------------------------------ calls

class HCtx(FreshCtx):
    transplant = False

    def seed(self):
        s = self.draw_seed()
        if self.seed_mode != 'generator' and self.rng.random() < 0.03:
            s = -1 - int(self.rng.integers(0, 5))       # a negative integer is rejected by numpy: always, not now and then
        if self.seed_mode == 'generator':
            if self.transplant:
                # a generator with another past (other seed, children spawned) whose STATE is then set to that of a fresh
                # PCG64(s): a function that draws from the object only cannot tell the difference
                g = YGen(np.random.PCG64((s * 7 + 3) % (1 << 62)))
                try:
                    g.spawn(2)
                except Exception:
                    pass
                g.bit_generator.state = np.random.PCG64(s).state
                self.seed_value = g
                return g
            self.seed_value = YGen(np.random.PCG64(s))
        else:
            self.seed_value = s
        return self.seed_value


def build_call(spec, n, monitor=None, transplant=False):
    ctx = HCtx(spec['argseed'], n, seed_mode=spec.get('seed_mode', 'int'), monitor=monitor)
    ctx.transplant = transplant
    call = api.build(spec['entry'], ctx)
    call.lapack_fail = spec.get('lapack_fail')
    call.rare_draw = spec.get('rare_draw')
    return call, ctx


# fault: a LAPACK driver does not converge. The numpy / scipy entry points the library looks up at call time are wrapped once;
# a wrapper only acts for the thread whose current library call carries a plan [which, k]: the k-th call of that routine raises.
LAPACK_PLAN = {}
LAPACK_FIRED = [0]


def _install_lapack_wrappers():
    import scipy.linalg

    def mk(orig, which):
        if getattr(orig, '_verif_wrapped', False):
            return orig

        def w(*a, **kw):
            pl = LAPACK_PLAN.get(threading.get_ident())
            if pl is not None and pl[0] == which:
                pl[2] += 1
                if pl[2] == pl[1]:
                    LAPACK_FIRED[0] += 1
                    raise np.linalg.LinAlgError('%s did not converge (injected)' % which)
            return orig(*a, **kw)
        w._verif_wrapped = True
        return w
    np.linalg.svd = mk(np.linalg.svd, 'svd')
    np.linalg.qr = mk(np.linalg.qr, 'qr')
    scipy.linalg.lstsq = mk(scipy.linalg.lstsq, 'lstsq')
    scipy.linalg.rq = mk(scipy.linalg.rq, 'rq')


import scipy.linalg._basic as _sp_basic      # noqa: E402
_ORIG_LSTSQ = _sp_basic.lstsq                # the function object whose attribute `default_lapack_driver` scipy reads
_install_lapack_wrappers()


def result_digest(call, ctx, res, exc):
    if exc is not None:
        return dig('raised', type(exc).__name__, str(exc)[:200])
    items = []
    if call.post is not None:
        try:
            items.append(call.post(res))
        except Exception as e:
            items.append(('post-raised', type(e).__name__))
    elif callable(res) or hasattr(res, '__dict__'):
        items.append('object')
    else:
        items.append(res)
    for key in ('info', 'cache'):
        dct = call.kwargs.get(key)
        if isinstance(dct, dict):
            items.append({k: v for k, v in dct.items() if k != 't'})
    if isinstance(ctx.seed_value, np.random.Generator):
        items.append(repr(ctx.seed_value.bit_generator.state))
    return dig(items)


def modify_args(call):
    """The caller changes its own data in place (same objects, new values)."""
    from engines.alias_sim import arrays_of
    n = 0
    for a in list(call.args) + list(call.kwargs.values()):
        for arr in arrays_of(a):
            if arr.flags.writeable and arr.dtype.kind == 'f' and arr.size:
                arr *= 0.5
                arr += 0.25
                n += 1
    return n


def args_digest(call):
    """Digest of every argument the call may not change (documented in-place / info / cache arguments excluded)."""
    items = []
    for i, a in enumerate(call.args):
        if i not in call.mutable and not callable(a) and not isinstance(a, np.random.Generator):
            items.append(a)
    for k in sorted(call.kwargs):
        v = call.kwargs[k]
        if k not in call.mutable and not callable(v) and not isinstance(v, np.random.Generator) and \
                not (isinstance(v, list) and v and callable(v[0])):
            items.append((k, v))
    return dig(items)


def repeat_ok(call, spec):
    """A second call with the very same objects must give the same result unless the first one legitimately changed them."""
    if spec.get('seed_mode') != 'int' or call.passthrough:
        return False
    if any(isinstance(m, int) for m in call.mutable) or 'cache' in call.kwargs:
        return False
    return spec['entry'] not in ('getter', 'show')


ERRSTATE_LEAKS = []


POISON = [None]     # byte pattern freed memory is filled with before every library call (None: fault off); differs between the isolated reference and the history


def run_call(call):
    err0 = np.geterr()
    plan = getattr(call, 'lapack_fail', None)
    try:
        if POISON[0] is not None:
            poison_heap(POISON[0])
        if plan:
            LAPACK_PLAN[threading.get_ident()] = [plan[0], plan[1], 0]
        rare = getattr(call, 'rare_draw', None)
        if rare:
            RARE_PLAN[threading.get_ident()] = [rare[0], rare[1], 0]
        return call.run(), None
    except SimAbort:
        raise
    except Exception as e:
        return None, e
    finally:
        LAPACK_PLAN.pop(threading.get_ident(), None)
        RARE_PLAN.pop(threading.get_ident(), None)
        err1 = np.geterr()
        if err1 != err0:
            # process-global floating-point error handling was changed by the call and not restored: later results (inf / nan
            # versus FloatingPointError) now depend on this call having happened
            ERRSTATE_LEAKS.append((call.name, err0, err1))
            np.seterr(**err0)


def scribble(res):
    from engines.alias_sim import arrays_of
    for a in arrays_of(res):
        if a.flags.writeable and a.dtype.kind == 'f':
            a[...] = -777.25
        elif a.flags.writeable and a.dtype.kind in 'iu':
            a[...] = 0


# ------------------------------------------------------------------ scheduler

class Client:
    def __init__(self, cid, script):
        self.id = cid
        self.script = script
        self.go = threading.Event()
        self.done = False
        self.atomic = False
        self.in_call = False
        self.results = []          # (spec index, digest)
        self.results2 = {}         # spec index -> digest of the call repeated after the caller modified its arguments
        self.results_rep = {}      # spec index -> digest of the call repeated with the very same objects
        self.check_failures = []
        self.arg_changes = []
        self.error = None
        self.kept = []


class Sched:
    def __init__(self, sc, stats):
        self.rng = np.random.Generator(np.random.PCG64(sc['sched_seed']))
        self.sc = sc
        self.stats = stats
        self.kernel = threading.Event()
        self.clients = [Client(i, s) for i, s in enumerate(sc['clients'])]
        self.current = None
        self.trace = []
        self.steps = 0
        self.cap = 6000
        self.saved_state = np.random.get_state()
        self.switch_inside = 0
        self.perturbed = 0
        self.abort = None

    # ---- called in client threads
    def point(self, cl, tag):
        self.steps += 1
        self.trace.append((cl.id, tag.split(':')[0] if tag.startswith('draw') else tag))
        if self.steps > self.cap:
            raise SimAbort('yield point cap exceeded')
        if tag.startswith('draw'):
            self.stats['probe.draw_yield_points'] = self.stats.get('probe.draw_yield_points', 0) + 1
        elif tag not in ('enter', 'exit'):
            self.stats['probe.callback_yield_points'] = self.stats.get('probe.callback_yield_points', 0) + 1
        self.kernel.set()
        cl.go.wait()
        cl.go.clear()
        if self.abort:
            raise SimAbort(self.abort)

    def point_current(self, tag):
        cl = self.current
        if cl is not None and threading.current_thread() is cl.thread:
            self.point(cl, tag)

    def client_main(self, cl):
        cl.go.wait()
        cl.go.clear()
        if self.sc['world_seed'] % 5 == 0:
            # this caller prints arrays tersely (numpy keeps the print options per thread / context; the library never sets them)
            np.set_printoptions(threshold=2, edgeitems=1, precision=2)
        try:
            for k, spec in enumerate(cl.script):
                mon = (lambda tag, cl=cl: self.point(cl, tag))
                call, ctx = build_call(spec, self.sc['n'], monitor=mon, transplant=True)
                args_before = args_digest(call)
                cl.atomic = call.defaults_dict is not None
                self.point(cl, 'enter')
                cl.in_call = True
                res, exc = run_call(call)
                cl.in_call = False
                dg = result_digest(call, ctx, res, exc)
                if isinstance(ctx.seed_value, YGen) and exc is None and ctx.seed_value.draws == 0 and call.seed_kw \
                        and spec['entry'] not in ('cross_act', 'ANOVA'):
                    # a random function that was handed a generator object and returned without a single draw from it
                    cl.check_failures.append((k, '%s was given a generator object as seed and returned a result without drawing from that object' % spec['entry']))
                if not call.passthrough and args_digest(call) != args_before:
                    cl.arg_changes.append((k, spec['entry']))
                cl.results.append((k, dg))
                if call.check is not None and exc is None:
                    try:
                        bad = call.check(res)
                    except SimAbort:
                        raise
                    except Exception:
                        bad = None          # the absolute oracle could not be evaluated for these arguments (e.g. non-finite data): no verdict
                    if bad:
                        cl.check_failures.append((k, bad))
                if not call.passthrough:
                    cl.kept.append(res)
                if spec.get('repeat') and repeat_ok(call, spec):
                    # the very same argument objects again (stateful callbacks put back to their initial state); the first result is scribbled on
                    self.point(cl, 'exit')
                    scribble(res)
                    if call.reset is not None:
                        call.reset()
                    self.stats['fault.same_objects_called_again'] = self.stats.get('fault.same_objects_called_again', 0) + 1
                    self.point(cl, 'enter')
                    cl.in_call = True
                    res_r, exc_r = run_call(call)
                    cl.in_call = False
                    cl.results_rep[k] = result_digest(call, ctx, res_r, exc_r)
                    cl.kept.append(res_r)
                if spec.get('remodify') and not call.mutable and not call.passthrough and spec['entry'] not in REMOD_EXCLUDED:
                    # the caller rewrites its own argument objects in place and calls again with the very same objects
                    self.point(cl, 'exit')
                    if modify_args(call):
                        self.stats['fault.caller_modified_arguments_then_recalled'] = self.stats.get('fault.caller_modified_arguments_then_recalled', 0) + 1
                        self.point(cl, 'enter')
                        cl.in_call = True
                        res2, exc2 = run_call(call)
                        cl.in_call = False
                        cl.results2[k] = result_digest(call, ctx, res2, exc2)
                        cl.kept.append(res2)
                cl.atomic = False
                self.point(cl, 'exit')
        except SimAbort as e:
            cl.error = 'abort: %s' % e
        except BaseException as e:      # harness problem inside a client thread
            import traceback
            cl.error = 'harness: ' + traceback.format_exc()
        finally:
            cl.done = True
            self.kernel.set()

    # ---- main thread
    def perturb(self):
        k = int(self.rng.integers(0, 6))
        F = lambda name: self.stats.__setitem__('fault.' + name, self.stats.get('fault.' + name, 0) + 1)
        if k == 0:
            np.random.seed(int(self.rng.integers(0, 1 << 31)))
            F('global_rng_reseed')
        elif k == 1:
            np.random.random(int(self.rng.integers(1, 50)))
            np.random.shuffle(np.arange(5))
            F('global_rng_advance')
        elif k == 2:
            np.random.set_state(self.saved_state)
            F('global_rng_restore')
        elif k == 3:
            CLOCK.jump(float(self.rng.choice([-1e6, 3600.0, 1e9])))
            F('clock_jump')

        elif k == 4:
            done = [c for c in self.clients if c.kept]
            if done:
                c = done[int(self.rng.integers(0, len(done)))]
                scribble(c.kept[int(self.rng.integers(0, len(c.kept)))])
                F('scribble_earlier_result')
        else:
            self.saved_state = np.random.get_state()
        self.perturbed += 1

    def run(self):
        for cl in self.clients:
            cl.thread = threading.Thread(target=self.client_main, args=(cl,), daemon=True)
            cl.thread.start()
        last = None
        while True:
            alive = [c for c in self.clients if not c.done]
            if not alive:
                break
            if self.rng.random() < self.sc.get('perturb_rate', 0.3):
                self.perturb()
            at = [c for c in alive if c.atomic and c.in_call]
            if at:
                cl = at[0]             # a call relying on a default dictionary is not pre-empted by other clients
            else:
                cl = alive[int(self.rng.integers(0, len(alive)))]
            if last is not None and cl is not last and last.in_call:
                self.switch_inside += 1
            last = cl
            self.current = cl
            self.kernel.clear()
            cl.go.set()
            self.kernel.wait()
        self.current = None


# ------------------------------------------------------------------ scenario generation

def gen_spec(rng, force=None):
    u = rng.random()
    if force:
        entry = force
    elif u < 0.35:
        entry = rng.choice(SEEDED)
    elif u < 0.6:
        entry = rng.choice(SOLVERS + DEFAULT_DICT)
    else:
        entry = rng.choice(NAMES)
    sp = {'entry': entry, 'argseed': rng.randrange(1 << 30), 'seed_mode': rng.choice(['int', 'int', 'generator'])}
    if rng.random() < 0.06:
        sp['lapack_fail'] = [rng.choice(['svd', 'svd', 'qr', 'lstsq', 'rq']), rng.randint(1, 3)]
    if rng.random() < 0.2 and entry not in REMOD_EXCLUDED:
        sp['remodify'] = True
        sp['seed_mode'] = 'int'
    elif rng.random() < 0.2:
        sp['repeat'] = True
        sp['seed_mode'] = 'int'
    if entry in SEEDED and sp['argseed'] % 4 == 0:
        # derived from the argument seed, not drawn: the scenario stream of earlier versions is unchanged
        sp['rare_draw'] = [1 + (sp['argseed'] // 4) % 3, [1e-7, 1e-5, 1 - 1e-9][(sp['argseed'] // 12) % 3]]
    return sp


def generate(rng, prop, tier):
    d = rng.choice([2, 3, 3, 4])
    n = [rng.choice([2, 2, 3, 3, 4, 5]) for _ in range(d)]
    if rng.random() < 0.12:
        n[rng.randrange(d)] = 1            # a singleton mode
    elif rng.random() < 0.04:
        n = [2] * rng.choice([7, 8])       # many short modes
    K = rng.choice([1, 2, 2, 3, 4])
    clients = []
    pool = []
    for _ in range(K):
        script = []
        for _ in range(rng.randint(1, 5)):
            if pool and rng.random() < 0.25:
                script.append(dict(rng.choice(pool)))            # the same call again, later / elsewhere
            elif pool and rng.random() < 0.2:
                script.append(gen_spec(rng, force=rng.choice(pool)['entry']))     # the same function with other arguments
            else:
                script.append(gen_spec(rng))
            pool.append(script[-1])
        clients.append(script)
    if rng.random() < 0.4:
        # a run of default-dictionary calls of one solver (sequential reuse of the module-level default)
        fn = rng.choice(['cross', 'cross', 'als', 'als_func', 'als_swap'])
        if fn == 'als_swap':
            clients[0] = [gen_spec(rng, force='als_swap_default_info'), gen_spec(rng, force='als_vld_default_info')] + clients[0][:2]
        else:
            clients[0] = [gen_spec(rng, force=fn) for _ in range(rng.randint(2, 4))] + clients[0][:2]
    return {'engine': NAME, 'n': n, 'clients': clients, 'sched_seed': rng.randrange(1 << 30),
            'perturb_rate': rng.choice([0.0, 0.2, 0.5]), 'world_seed': rng.randrange(1 << 30), 'poison': rng.random() < 0.5}


def viol(oracle, detail):
    return {'property': 'C10', 'oracle': oracle, 'detail': detail}


def execute_process_history(sc):
    """Replay of a process-history violation: run the prefix scenarios, then the target, in this process and compare the
    target's digest with the one a fresh interpreter gives."""
    from sim import kernel
    import engines.history_sim as me
    prop, tier, seed = sc['property'], sc['tier'], sc['seed']
    for i in sc['prefix']:
        execute(kernel.make_scenario(me, prop, tier, seed, i))
    warm = execute(kernel.make_scenario(me, prop, tier, seed, sc['target']))
    fresh = kernel.fresh_digest(prop, tier, seed, sc['target'])
    V = []
    if fresh != warm['digest']:
        V.append(viol('process-history-dependence', 'scenario %d gives digest %s when it is the first thing a fresh interpreter does, but %s after the %d scenarios %s '
                      'were executed in the same process' % (sc['target'], fresh, warm['digest'], len(sc['prefix']), sc['prefix'][:12])))
    return {'violations': V + warm['violations'], 'runs': len(sc['prefix']) + 1, 'stats': {}, 'digest': dig(fresh, warm['digest']), 'nontrivial': 1,
            'sim_time': 0.0, 'sample': {'prefix': len(sc['prefix']), 'target': sc['target']}, 'interleavings': []}


def execute(sc):
    if sc.get('mode') == 'process-history':
        return execute_process_history(sc)
    sc = copy.deepcopy(sc)
    del ERRSTATE_LEAKS[:]
    LAPACK_FIRED[0] = 0
    stats = {}
    V = []
    runs = 0
    old_out = sys.stdout
    sys.stdout = Sink()
    try:
        # ---- isolated references in the canonical world
        refs = {}
        probe_rng = 0
        POISON[0] = 0x5A if sc.get('poison') else None
        for ci, script in enumerate(sc['clients']):
            for k, spec in enumerate(script):
                key = cjson(spec)
                if key in refs:
                    stats['probe.repeated_calls'] = stats.get('probe.repeated_calls', 0) + 1
                    continue
                canonical_world()
                SCHED[0] = None
                call, ctx = build_call(spec, sc['n'])
                if call.defaults_dict is not None:
                    # the reference supplies a fresh dictionary where the history omits it
                    call.kwargs[call.defaults_dict] = {}
                    stats['probe.default_dict_calls'] = stats.get('probe.default_dict_calls', 0) + 1
                if spec.get('seed_mode') == 'generator' and call.seed_kw:
                    stats['probe.generator_object_calls'] = stats.get('probe.generator_object_calls', 0) + 1
                st0 = np.random.get_state()[1].tobytes()
                res, exc = run_call(call)
                runs += 1
                if call.defaults_dict is not None:
                    call.kwargs.pop(call.defaults_dict)
                    d1 = result_digest(call, ctx, res, exc)
                else:
                    d1 = result_digest(call, ctx, res, exc)
                if np.random.get_state()[1].tobytes() != st0:
                    stats['probe.global_rng_changed_by_call'] = stats.get('probe.global_rng_changed_by_call', 0) + 1
                d2 = None
                if spec.get('remodify') and not call.mutable and not call.passthrough and spec['entry'] not in REMOD_EXCLUDED:
                    canonical_world()
                    call2, ctx2 = build_call(spec, sc['n'])
                    if modify_args(call2):
                        res2, exc2 = run_call(call2)
                        runs += 1
                        d2 = result_digest(call2, ctx2, res2, exc2)
                refs[key] = (d1, spec['entry'], None if exc is None else type(exc).__name__, d2)
        # ---- the interleaved, perturbed history
        np.random.seed(sc['world_seed'] % (1 << 31))
        CLOCK.reset()
        if sc['world_seed'] % 5 == 0:
            stats['fault.numpy_printoptions_changed'] = 1           # set by every client thread for itself, see client_main
        if sc['world_seed'] % 7 == 0:
            # scipy's documented process-global default of the least-squares driver (the library names its driver in every call)
            _ORIG_LSTSQ.default_lapack_driver = ['gelss', 'gelsy'][sc['world_seed'] % 2]
            stats['fault.scipy_default_lstsq_driver_changed'] = 1
        if sc.get('poison'):
            POISON[0] = 0xA5
            stats['fault.uninitialised_memory_poisoned'] = 1
        s = Sched(sc, stats)
        SCHED[0] = s
        try:
            s.run()
        finally:
            SCHED[0] = None
        runs += sum(len(c.results) for c in s.clients)
        for cl in s.clients:
            if cl.error and cl.error.startswith('harness'):
                raise RuntimeError(cl.error)
            if cl.error:
                V.append(viol('liveness', 'client %d: %s' % (cl.id, cl.error)))
                continue
            for k, nm in cl.arg_changes:
                V.append(viol('history-through-arguments', 'client %d call %d: %s changed the contents of an argument it may not change: every later call that '
                              'is given the same object sees other data than the caller put there' % (cl.id, k, nm)))
                break
            for k, bad in cl.check_failures:
                V.append(viol('twin', 'client %d call %d: %s' % (cl.id, k, bad)))
                break
            for k, dg in cl.results:
                spec = cl.script[k]
                ref = refs[cjson(spec)]
                if k in cl.results_rep and cl.results_rep[k] != dg:
                    V.append(viol('repeatability', 'client %d call %d: %s (argseed %d) called twice with the very same argument objects (callbacks reset) '
                                  'returned two different results' % (cl.id, k, spec['entry'], spec['argseed'])))
                    break
                if k in cl.results2 and ref[3] is not None and cl.results2[k] != ref[3]:
                    V.append(viol('history-dependence', 'client %d call %d: %s (argseed %d) called again with the same argument objects after the caller changed '
                                  'their contents returned another result than a first call with those contents' % (cl.id, k, spec['entry'], spec['argseed'])))
                    break
                if dg != ref[0]:
                    V.append(viol('determinism', 'client %d call %d: %s (argseed %d, seed as %s%s) returned another result in the interleaved / perturbed history '
                                  'than in isolation (reference %s)' % (cl.id, k, spec['entry'], spec['argseed'], spec.get('seed_mode'),
                                                                       ', optional dictionary omitted' if spec['entry'] in DEFAULT_DICT else '',
                                                                       'raised ' + ref[2] if ref[2] else 'returned normally')))
                    break
        if ERRSTATE_LEAKS and not V:
            nm, e0, e1 = ERRSTATE_LEAKS[0]
            V.append(viol('global-error-state', '%s changed numpy\'s process-global floating-point error handling from %s to %s and did not restore it: '
                          'the results of later calls (inf / nan or FloatingPointError) depend on this call having been made' % (nm, e0, e1)))
        if LAPACK_FIRED[0]:
            stats['fault.lapack_routine_failed'] = LAPACK_FIRED[0]
        if s.switch_inside:
            stats['probe.context_switch_inside_call'] = s.switch_inside
            stats['fault.rare_extreme_draw'] = RARE_HITS[0]; RARE_HITS[0] = 0
        nontrivial = 1 if (s.switch_inside or s.perturbed) else 0
        sched_dig = dig(s.trace)
    finally:
        sys.stdout = old_out
        SCHED[0] = None
        POISON[0] = None
        np.set_printoptions(threshold=1000, edgeitems=3, precision=8, linewidth=75)
        _ORIG_LSTSQ.default_lapack_driver = 'gelsd'
    sample = {'n': sc['n'], 'clients': [[(x['entry'], x['seed_mode']) for x in scr] for scr in sc['clients']],
              'yield_points': s.steps, 'switches_inside_calls': s.switch_inside, 'perturbations': s.perturbed}
    h = [[r for r in c.results] + sorted(c.results2.items()) + sorted(c.results_rep.items()) for c in s.clients]
    env_digests = {k_: [v_[0], v_[2], v_[1]] for k_, v_ in refs.items()}       # per isolated call: digest, exception type, entry (compared between interpreters by the kernel)
    return {'violations': V, 'runs': runs, 'stats': stats, 'env_digests': env_digests, 'digest': dig(h, sched_dig, [v['oracle'] for v in V]),
            'nontrivial': nontrivial, 'sim_time': CLOCK.advanced, 'sample': sample, 'interleavings': [sched_dig]}


OPT_SAMPLE = {'quick': 1600, 'thorough': 3000}     # scenarios re-executed under python -O (cheap here; every catalogue entry must get its share)


def classify(sc):
    """Class label for the stratified python -O sample: the function the first client calls first."""
    return sc['clients'][0][0]['entry'] if sc.get('clients') and sc['clients'][0] else '-'


def shrink(sc, v):
    def cp():
        return copy.deepcopy(sc)
    if sc.get('mode') == 'process-history':
        pre = sc['prefix']
        n = len(pre)
        if n > 1:
            for a, b in ((0, n // 2), (n // 2, n)):
                s = cp(); s['prefix'] = pre[:a] + pre[b:]; yield s
        if n <= 8:
            for i in range(n):
                s = cp(); s['prefix'] = pre[:i] + pre[i + 1:]; yield s
        return
    for ci in range(len(sc['clients']) - 1, -1, -1):
        if len(sc['clients']) > 1:
            s = cp(); del s['clients'][ci]; yield s
    for ci, script in enumerate(sc['clients']):
        for k in range(len(script) - 1, -1, -1):
            if sum(len(x) for x in sc['clients']) > 1 and len(script) > 0:
                s = cp(); del s['clients'][ci][k]
                if not s['clients'][ci] and len(s['clients']) > 1:
                    del s['clients'][ci]
                if any(s['clients']):
                    yield s
    if sc.get('perturb_rate'):
        s = cp(); s['perturb_rate'] = 0.0; yield s
    for ci, script in enumerate(sc['clients']):
        for k, spec in enumerate(script):
            if spec.get('remodify'):
                s = cp(); s['clients'][ci][k]['remodify'] = False; yield s
            if spec.get('repeat'):
                s = cp(); s['clients'][ci][k]['repeat'] = False; yield s
            if spec.get('seed_mode') != 'int':
                s = cp(); s['clients'][ci][k]['seed_mode'] = 'int'; yield s
    if len(sc['n']) > 2:
        s = cp(); s['n'] = sc['n'][:-1]; yield s
