"""als_sim: teneva.als / teneva.als_func as a long-running, checkpointed job.

The job is driven through seeded *sweep plans*: segments that end because nswp ran out
or because the sweep callback cancelled, restarts from the returned tensor (the only
state that survives), training rows re-delivered in a new order at a restart, clock
jumps at callbacks. Oracles: invariants at every sweep (descent, shape/ranks, counters),
per-core optimality recomputed independently, restart equivalence against the continuous
run, order independence from every state of the reference trajectory (tolerance measured
per state by noise probes), contract clauses (ValueError for missing slices, rank-adaptive
rank cap, stop reasons)."""
import copy

import numpy as np

from sim import boot
from sim.boot import CLOCK
from sim.util import SimAbort, cjson, dig, tt_copy, wellformed_tt
from sim.world import Monitor, captured_stdout, gen, make_tt, poison_heap

teneva = boot.boot()

NAME = 'als_sim'
LEVEL = {'C07': 'exploration'}
RULE = {'C07': 'scenario = seeded training set (size 1..40, duplicates, a slice covered by one sample at a scheduled row incl. row 0, optional '
               'weights), start tensor, lamb > 0 and a sweep plan (segments ended by nswp or callback cancel, restart from the result, '
               'permuted re-delivery, clock jumps) for als or als_func; evaluations = simulated als/als_func calls; a case is non-trivial '
               'when the plan has at least one restart or cancellation and at least 2 sweeps, or checks a contract clause; '
               'distinct = distinct scenario digests.'}
COMPONENTS = {
    'real': ['teneva.als, teneva.als_func and everything they call (opt_einsum, scipy lstsq, accuracy, erank, func_basis, poi_scale)'],
    'stub': ['sweep callback (monitor, cancellation, clock jumps)', 'basis callback fh (simulator-owned basis)', 'clock (virtual perf_counter, also the step counter for als_func)',
             'job controller (restart from the returned tensor, permuted re-delivery of training rows)'],
}
ASSUMPTIONS = {'C07': ['lamb > 0 (as in the quantifier); shapes d<=5, n_k<=5, rank<=4, <=40 samples, <=8 sweeps',
                       'descent tolerance 1e-10 relative, optimality 1e-8 relative; restart equivalence / order independence judged against '
                       'the measured response of the same map to 1e-9 relative noise in y (3 probes) with a floor of 1e-10 relative']}
EXPECTED_PROBES = {'C07': ['restart_bitwise', 'single_sample_slice_row0', 'cancelled_by_cb', 'permuted_restart', 'order_checked',
                           'optimality_checked', 'descent_checked', 'rank_adaptive', 'missing_slice_rejected', 'skip_cores_unchanged',
                           'als_func_runs', 'weights', 'stop_e', 'stop_e_vld', 'stop_e_vld_mid_run', 'e_vld_without_data', 'optimality_checked_tiny_lamb', 'func_mode_size_reduced']}
BUDGET = {'C07': {'quick': {'n': 1500, 'max_s': 150, 'chunk': 10}, 'thorough': {'n': 120000, 'max_s': 3000, 'chunk': 25}}}


# ------------------------------------------------------------------ scenario generation

def generate(rng, prop, tier):
    kind = rng.choice(['als', 'als', 'als', 'als_func', 'als_func', 'contract', 'contract'])
    d = rng.choice([2, 2, 3, 3, 4, 5])
    if kind == 'als_func':
        nn = rng.choice([2, 3, 3, 4])
        n = [nn] * d
    else:
        n = [rng.choice([1, 2, 2, 3, 3, 4, 5]) for _ in range(d)]
    sc = {
        'engine': NAME, 'kind': kind, 'n': n, 'r': rng.randint(1, 4 if kind != 'als_func' else 3),
        'y0seed': rng.randrange(1 << 30), 'dseed': rng.randrange(1 << 30),
        'm': rng.choice([1, 2, 3, 4, 5, 6, 8, 12, 20, 30, 40]),
        'dup': rng.choice([0, 0, 1, 3]),
        'lamb': rng.choice([1e-3, 1e-3, 1e-2, 0.1, 1.0] * 3 + [1e-20, 1e-13]),     # "all lamb > 0": also far below the rounding level of the Gram matrices
        'w': rng.random() < 0.35,
        'wkind': rng.choice(['random', 'random', 'const', 'const', 'ones', 'mask', 'mask']),
        'ydist': rng.choice(['tt', 'normal', 'const']),
        'single': None,
        'basis': rng.choice(['cheb', 'own', 'ownlist']),
        'ab': rng.choice([[-1.0, 1.0], [0.0, 2.0], [-3.0, 0.5]]),
        'log': rng.random() < 0.05,
    }
    if kind in ('als', 'als_func') and rng.random() < 0.03:
        sc['m'] = rng.randint(8193, 20000)        # training sets larger than any plausible internal block size
        sc['plan'] = None
    if rng.random() < 0.6 and kind in ('als', 'contract'):
        ks = [k for k in range(d) if n[k] >= 2]
        if ks:
            k = rng.choice(ks)
            sc['single'] = {'mode': k, 'index': rng.randrange(n[k]), 'pos': rng.choice([0, 0, 0, 1, -1, 0.5])}
    # sweep plan
    nseg = rng.choice([1, 2, 2, 3, 4])
    plan = []
    left = 8
    for i in range(nseg):
        a = rng.randint(1, max(1, min(4, left - (nseg - i - 1))))
        left -= a
        plan.append({'a': a, 'how': rng.choice(['nswp', 'nswp', 'cb']) if kind != 'als_func' else 'nswp',
                     'perm': rng.randrange(1 << 30) if rng.random() < 0.5 else None,
                     'jump': rng.choice([0.0, 0.0, 1e5, -1e5])})
    if rng.random() < 0.04 and sc.get('plan', 1) is not None:
        # long jobs: more than ten sweeps in one call, split at a point that is no multiple of ten
        a1 = rng.choice([3, 5, 7, 11, 12, 13])
        plan = [{'a': a1, 'how': 'nswp', 'perm': None, 'jump': 0.0},
                {'a': rng.randint(12, 22) - a1 if a1 < 10 else rng.randint(2, 9), 'how': 'nswp', 'perm': rng.randrange(1 << 30) if rng.random() < 0.3 else None, 'jump': 0.0}]
    if sc.get('plan', 1) is None:
        plan = plan[:2]
        for seg in plan:
            seg['a'] = min(seg['a'], 2)
    sc['plan'] = plan
    sc['share_info'] = rng.random() < 0.4
    sc['vld'] = rng.random() < 0.3        # validation data are monitored (no e_vld stop): they must not influence the result
    if kind == 'als' and rng.random() < 0.12:
        # start (or restart) from a tensor that reproduces the noise-free data exactly: with lamb > 0 it is NOT the minimiser
        sc['exact_start'] = True
        sc['ydist'] = 'tt'
        sc['r'] = 2        # one progress record (info dict) reused across all segments / restarts
    if kind == 'als_func' and sc['basis'] == 'ownlist':
        # a list of basis generators with a different number of functions per mode
        sc['n'] = [rng.choice([2, 3, 4, 5, 6]) for _ in range(d)]
    if kind == 'contract':
        sc['clause'] = rng.choice(['missing', 'skip', 'adaptive', 'adaptive', 'stop_e', 'stop_e_vld', 'func_shrink', 'func_shrink'])
        if sc['clause'] == 'func_shrink':
            d = rng.choice([2, 3, 4])
            sc['n'] = [rng.choice([3, 4, 5])] * d
            sc['r'] = rng.randint(1, 2)
            sc['m'] = rng.randint(20, 60)
            sc['basis'] = 'cheb'
            sc['ab'] = [-1.0, 1.0]
            sc['thr_pow'] = rng.choice([1e-3, 1e-3, 1e-6])
            sc['deg'] = rng.choice([0, 1, 1, 2])
            sc['nswp'] = rng.randint(3, 9)
            sc['lamb'] = rng.choice([1e-3, 1e-2])
            sc['single'] = None
        if sc['clause'] == 'adaptive':
            d = rng.choice([3, 3, 4, 5])
            sc['n'] = [rng.choice([2, 3, 4]) for _ in range(d)]
            sc['r'] = rng.randint(1, 2)
            sc['rmax'] = sc['r'] + rng.randint(0, 3)
            if rng.random() < 0.3:
                # start tensors with ranks a neighbouring mode cannot carry (still <= r): the set-up of the adaptive mode lowers them
                sc['n'] = [rng.choice([1, 2, 2, 3]) for _ in range(d)]
                sc['r'] = rng.randint(2, 4)
                sc['rmax'] = sc['r'] + rng.randint(0, 2)
            sc['m'] = rng.choice([30, 60, 100])
            sc['single'] = None
            if rng.random() < 0.5:
                # structured data on the full grid whose local two-core solution has a group of equal singular values at the cut
                k = rng.choice([3, 4])
                sc['n'] = [k] * rng.choice([3, 3, 4])
                sc['ydist'] = 'delta'
                sc['rmax'] = rng.randint(1, k - 1)
                sc['r'] = rng.randint(1, sc['rmax'])
                sc['lamb'] = rng.choice([1e-6, 1e-3])
    return sc


# ------------------------------------------------------------------ materialisation

def build_data(sc):
    """Training set from integers: random rows, coverage rows, a slice covered by exactly
    one sample at a scheduled position, duplicates."""
    g = gen(sc['dseed'])
    n = sc['n']
    d = len(n)
    m = sc['m']
    sg = sc.get('single')
    rows = []
    for _ in range(m):
        rows.append([int(g.integers(0, k)) for k in n])
    # coverage rows
    for j in range(max(n)):
        rows.append([min(j, k - 1) for k in n])
    if sc.get('kind') == 'als_func':
        # the functional version has no slice-coverage requirement: exactly m points (m may equal the number of basis functions)
        X = g.uniform(sc['ab'][0], sc['ab'][1], (m, d))
        if sc['dseed'] % 4 == 0:
            # gridded data: many training points share a coordinate value in some dimension (a few dimensions only, or all)
            pts = np.linspace(sc['ab'][0], sc['ab'][1], 4 + sc['dseed'] % 3)
            for k in range(d):
                if k == 0 or (sc['dseed'] >> (3 + k)) % 2:
                    X[:, k] = pts[np.argmin(np.abs(X[:, k][:, None] - pts[None, :]), axis=1)]
        rows = None
    if rows is not None and sg is not None:
        k, j = sg['mode'], sg['index']
        alt = [x for x in range(n[k]) if x != j]
        for r in rows:
            if r[k] == j:
                r[k] = alt[int(g.integers(0, len(alt)))]
        # make sure the other indices of mode k are still covered
        for x in alt:
            r = [int(g.integers(0, kk)) for kk in n]
            r[k] = x
            rows.append(r)
        special = [int(g.integers(0, kk)) for kk in n]
        special[k] = j
    if rows is not None:
        for _ in range(sc.get('dup', 0)):
            rows.append(list(rows[int(g.integers(0, len(rows)))]))
        order = g.permutation(len(rows))
        rows = [rows[i] for i in order]
        if sg is not None:
            pos = sg['pos']
            p = 0 if pos == 0 else (len(rows) if pos == -1 else (1 if pos == 1 else len(rows) // 2))
            p = min(p, len(rows))
            rows.insert(p, special)
        I = np.array(rows, dtype=int)
        M = len(I)
    else:
        I = X
        M = len(X)
    if sc['ydist'] == 'delta':
        import itertools
        I = np.array(list(itertools.product(*[range(k) for k in n])), dtype=int)
        I = I[g.permutation(len(I))]
        y = (I[:, 0] == I[:, 1]).astype(float) * (1.0 + I[:, 2])
        return I, y, None
    if sc['ydist'] == 'normal':
        y = g.standard_normal(M)
    elif sc['ydist'] == 'const':
        y = np.full(M, 1.5) + 0.01 * g.standard_normal(M)
    else:
        Yt = make_tt(n, 2, sc['dseed'] + 1)
        if sc.get('kind') == 'als_func':
            y = predict_func(Yt, basis_mats(sc, I))
        else:
            y = predict(Yt, I)
        if not sc.get('exact_start'):
            y = y + 0.05 * g.standard_normal(M)
    w = None
    if sc.get('w') and sc.get('kind') != 'als_func':
        wk = sc.get('wkind', 'random')
        w = g.uniform(0.2, 3.0, M) if wk in ('random', 'mask') else (np.full(M, float(g.choice([0.1, 5.0, 40.0]))) if wk == 'const' else np.ones(M))
        if wk == 'mask':
            # 0/1-style masks: some samples switched off, among them every sample of one slice of mode 1 (the core updated last)
            w[g.random(M) < 0.2] = 0.0
            if len(n) > 1 and n[1] >= 2:
                w[I[:, 1] == int(g.integers(0, n[1]))] = 0.0
    return I, y, w


def own_basis(sc, k=0):
    """Simulator-owned basis for mode k (its size is the mode size of the start tensor)."""
    a, b = sc['ab']
    nn = sc['n'][k]

    def fh(x):
        t = (np.asarray(x, dtype=float) - a) / (b - a)
        return np.stack([np.cos(j * 1.3 * t) if j % 2 == 0 else np.sin(j * 0.9 * t + 0.2) for j in range(nn)])
    return fh


def basis_mats(sc, X):
    """H[k][s, j]: basis j at coordinate k of sample s, computed independently of the library."""
    a, b = sc['ab']
    nn = sc['n'][0]
    H = []
    for k in range(X.shape[1]):
        if sc['basis'] in ('own', 'ownlist'):
            H.append(own_basis(sc, k)(X[:, k]).T)
        else:
            t = np.clip((X[:, k] - (a + b) / 2) * (2 / (b - a)), -1, 1)
            H.append(np.polynomial.chebyshev.chebvander(t, nn - 1))
    return H


def predict(Y, I):
    Z = Y[0][0, I[:, 0], :]
    for k in range(1, len(Y)):
        Z = np.einsum('ma,amb->mb', Z, Y[k][:, I[:, k], :])
    return Z[:, 0]


def predict_func(Y, H):
    Z = np.einsum('mj,jb->mb', H[0][:, :Y[0].shape[1]], Y[0][0])
    for k in range(1, len(Y)):
        G = np.einsum('mj,ajb->mab', H[k][:, :Y[k].shape[1]], Y[k])
        Z = np.einsum('ma,mab->mb', Z, G)
    return Z[:, 0]


def objective(sc, Y, I, y, w, H=None):
    p = predict_func(Y, H) if H is not None else predict(Y, I)
    res = y - p
    ww = 1.0 if w is None else w
    return float(np.sum(ww * res * res) + sc['lamb'] * sum(float(np.sum(G * G)) for G in Y))


def interfaces(Y, I, k, H=None):
    """Left (m x r_k) and right (r_{k+1} x m) interface vectors for core k, by plain contraction."""
    m = len(I)
    L = np.ones((m, 1))
    for j in range(k):
        if H is None:
            L = np.einsum('ma,amb->mb', L, Y[j][:, I[:, j], :])
        else:
            L = np.einsum('ma,mab->mb', L, np.einsum('mj,ajb->mab', H[j][:, :Y[j].shape[1]], Y[j]))
    R = np.ones((1, m))
    for j in range(len(Y) - 1, k, -1):
        if H is None:
            R = np.einsum('amb,bm->am', Y[j][:, I[:, j], :], R)
        else:
            R = np.einsum('mab,bm->am', np.einsum('mj,ajb->mab', H[j][:, :Y[j].shape[1]], Y[j]), R)
    return L, R


def optimality_residual(sc, Y, I, y, w, k, H=None):
    """Worst relative residual of the normal equations of core k (per slice for als)."""
    L, R = interfaces(Y, I, k, H)
    lamb = sc['lamb']
    worst = 0.0
    if H is None:
        for j in range(Y[k].shape[1]):
            idx = np.where(I[:, k] == j)[0]
            if idx.size == 0:
                continue
            A = np.einsum('ma,bm->mab', L[idx], R[:, idx]).reshape(len(idx), -1)
            ww = np.ones(len(idx)) if w is None else w[idx]
            x = Y[k][:, j, :].reshape(-1)
            lhs = A.T @ (ww * (A @ x)) + lamb * x
            rhs = A.T @ (ww * y[idx])
            den = np.linalg.norm(A.T @ (ww * (A @ x))) + np.linalg.norm(rhs) + lamb * np.linalg.norm(x)
            if den > 0:
                worst = max(worst, float(np.linalg.norm(lhs - rhs) / den))
    else:
        A = np.einsum('ma,mj,bm->majb', L, H[k][:, :Y[k].shape[1]], R).reshape(len(I), -1)
        x = Y[k].reshape(-1)
        lhs = A.T @ (A @ x) + lamb * x
        rhs = A.T @ y
        den = np.linalg.norm(A.T @ (A @ x)) + np.linalg.norm(rhs) + lamb * np.linalg.norm(x)
        if den > 0:
            worst = float(np.linalg.norm(lhs - rhs) / den)
    return worst


# ------------------------------------------------------------------ one simulated call

class Obs:
    pass


def vld_data(sc, d):
    g = gen(sc['dseed'] + 21)
    if sc['kind'] == 'als_func':
        return {'X_vld': g.uniform(sc['ab'][0], sc['ab'][1], (7, d)), 'y_vld': g.standard_normal(7) + 1.0}
    return {'I_vld': np.stack([g.integers(0, k, 7) for k in sc['n']], axis=1), 'y_vld': g.standard_normal(7) + 1.0}


def run_job(sc, I, y, w, Y0, nswp, cb_at=None, jump=0.0, e=None, extra=None, keep=True, info=None):
    if sc.get('vld') and sc.get('kind') in ('als', 'als_func') and not (extra and ('I_vld' in extra or 'X_vld' in extra or 'r' in extra)):
        extra = dict(extra or {}, **vld_data(sc, len(sc['n'])))
    o = Obs()
    o.events = []
    CLOCK.reset()
    if sc['dseed'] % 3 == 0:
        poison_heap(0x5A)          # fault: uninitialised memory the solver allocates holds an adversarial pattern
    o.info = {} if info is None else info
    o.exc = None
    o.abort = None
    o.Y = None
    reads_cap = 400
    base_reads = [0]

    class Clk:
        pass
    if sc['kind'] == 'als_func':
        fh = own_basis(sc) if sc['basis'] == 'own' else ([own_basis(sc, k) for k in range(len(sc['n']))] if sc['basis'] == 'ownlist' else None)
        kw = dict(a=sc['ab'][0], b=sc['ab'][1], nswp=nswp, e=e, info=o.info, lamb=sc['lamb'], fh=fh, thr_pow=sc.get('thr_pow', 0.0),
                  log=sc.get('log', False))
        if extra:
            kw.update(extra)
        o.mon = None
        try:
            with captured_stdout():
                CLOCK.reads = 0
                CLOCK.cap = 200
                o.Y = teneva.als_func(I, y, Y0, **kw)
        except SimAbort as ex:
            o.abort = str(ex)
        except Exception as ex:
            o.exc = ex
        finally:
            CLOCK.cap = 0
        o.sweeps = o.info.get('nswp')
    else:
        o.mon = Monitor(o.events, cb_at=cb_at, jumps={str(cb_at or 1): jump} if jump else None, keep_tensors=keep, sweep_cap=40)
        kw = dict(nswp=nswp, e=e, info=o.info, lamb=sc['lamb'], w=w, cb=o.mon, log=sc.get('log', False))
        if extra:
            kw.update(extra)
        try:
            with captured_stdout():
                o.Y = teneva.als(I, y, Y0, **kw)
        except SimAbort as ex:
            o.abort = str(ex)
        except Exception as ex:
            o.exc = ex
        o.sweeps = len(o.mon.snaps)
    o.sim_time = CLOCK.advanced
    return o


def viol(oracle, detail):
    return {'property': 'C07', 'oracle': oracle, 'detail': detail}


def flat(Y):
    return np.concatenate([G.reshape(-1) for G in Y])


def same_bits(Ya, Yb):
    return len(Ya) == len(Yb) and all(a.shape == b.shape and a.tobytes() == b.tobytes() for a, b in zip(Ya, Yb))


def noise_tolerance(sc, runner, ref, y, Ystart, K=2):
    """Measured sensitivity of `runner` (a map from training values and start tensor to a result).

    Re-ordering the samples perturbs sums at the 1e-16 level, in the right-hand sides and in the
    normal matrices M = A^T W A + lamb I alike. Rounding in M is amplified by cond(M), whereas noise
    in the inputs that A is built from is amplified by about sqrt(cond(M)) only, so the response to
    relative input noise eps over-estimates the effect of re-ordering by a factor
    eps / (1e-16 * sqrt(cond(M))): at least 1e2 for eps = 1e-9 and cond(M) <= 1e10 (callers skip
    states with larger cond). The map is probed with relative noise in y AND in the start cores at
    two magnitudes, 1e-9 and 1e-12 (K probes each). If the response does not scale with the noise
    (LAPACK's rank decision flips: the response to 1e-15 noise is as large as to 1e-9 noise) no
    tolerance is sound and the caller skips the comparison (counted).
    Returns (10 x response to 1e-9 noise, linear)."""
    g = gen(sc['dseed'] + 99)
    rf = flat(ref)
    resp = {}
    for eps in (1e-9, 1e-12):
        r = 0.0
        for _ in range(K):
            yp = y * (1.0 + eps * g.standard_normal(len(y)))
            Yp = [G * (1.0 + eps * g.standard_normal(G.shape)) for G in Ystart]
            o = runner(yp, Yp)
            if o.Y is None or [G.shape for G in o.Y] != [G.shape for G in ref]:
                return 0.0, False
            r = max(r, float(np.linalg.norm(flat(o.Y) - rf)))
        resp[eps] = r
    floor = 1e-10 * max(np.linalg.norm(rf), 1e-300)
    linear = resp[1e-12] <= 0.05 * resp[1e-9] or resp[1e-9] <= 1e-2 * floor
    return max(10 * resp[1e-9], floor), linear


def max_cond(sc, Y, I, w, H=None):
    """Worst 2-norm condition number of the regularised normal matrices of all cores at state Y."""
    worst = 1.0
    lamb = sc['lamb']
    for k in range(len(Y)):
        L, R = interfaces(Y, I, k, H)
        if H is None:
            for j in range(Y[k].shape[1]):
                idx = np.where(I[:, k] == j)[0]
                if idx.size == 0:
                    continue
                A = np.einsum('ma,bm->mab', L[idx], R[:, idx]).reshape(len(idx), -1)
                ww = np.ones(len(idx)) if w is None else w[idx]
                M = A.T @ (ww[:, None] * A) + lamb * np.eye(A.shape[1])
                worst = max(worst, float(np.linalg.cond(M)))
        else:
            A = np.einsum('ma,mj,bm->majb', L, H[k][:, :Y[k].shape[1]], R).reshape(len(I), -1)
            M = A.T @ A + lamb * np.eye(A.shape[1])
            worst = max(worst, float(np.linalg.cond(M)))
    return worst


def check_contract(sc, o, Y0, tag, V, expect_sweeps=None, expect_stop=None):
    if o.abort is not None:
        V.append(viol('liveness', '%s: step cap hit: %s' % (tag, o.abort)))
        return False
    if o.exc is not None:
        V.append(viol('exception', '%s: raised %s: %s' % (tag, type(o.exc).__name__, str(o.exc)[:300])))
        return False
    why = wellformed_tt(o.Y, [G.shape[1] for G in Y0])
    if why:
        V.append(viol('shape', '%s: %s' % (tag, why)))
        return False
    if [G.shape for G in o.Y] != [G.shape for G in Y0]:
        V.append(viol('shape', '%s: result core shapes %s differ from the start tensor %s (constant rank)'
                      % (tag, [G.shape for G in o.Y], [G.shape for G in Y0])))
        return False
    stop = o.info.get('stop')
    if stop not in ('nswp', 'e', 'e_vld', 'cb'):
        V.append(viol('stop', '%s: info[stop]=%r is not a documented reason' % (tag, stop)))
    if o.mon is not None and o.info.get('nswp') != len(o.mon.snaps):
        V.append(viol('counter-nswp', '%s: info[nswp]=%r but the monitor saw %d sweeps' % (tag, o.info.get('nswp'), len(o.mon.snaps))))
    if expect_sweeps is not None and o.info.get('nswp') != expect_sweeps:
        V.append(viol('counter-nswp', '%s: info[nswp]=%r, %d sweeps were planned (stop=%r)' % (tag, o.info.get('nswp'), expect_sweeps, stop)))
    if expect_stop is not None and stop != expect_stop:
        V.append(viol('stop', '%s: info[stop]=%r, expected %r' % (tag, stop, expect_stop)))
    if o.mon is not None:
        last = o.events[-1] if o.events else None
        if o.mon.fired and not (last and last[0] == 'cb' and last[2] is True):
            V.append(viol('stop', '%s: sweeps continued after the callback returned True' % tag))
        if stop == 'cb' and not o.mon.fired:
            V.append(viol('stop', '%s: stop=cb but the callback never returned True' % tag))
    return True


def execute_plan(sc):
    V = []
    stats = {}
    P = lambda k, c=1: stats.__setitem__('probe.' + k, stats.get('probe.' + k, 0) + c)
    Fk = lambda k, c=1: stats.__setitem__('fault.' + k, stats.get('fault.' + k, 0) + c)
    I, y, w = build_data(sc)
    is_func = sc['kind'] == 'als_func'
    H = basis_mats(sc, I) if is_func else None
    Y0 = make_tt(sc['n'], sc['r'], sc['y0seed'], dist='uniform')
    if sc.get('exact_start') and not is_func:
        Y0 = make_tt(sc['n'], 2, sc['dseed'] + 1)
        P('exact_interpolant_start')
    plan = sc['plan']
    S = sum(p['a'] for p in plan)
    runs = 0
    sim = 0.0
    h = []
    if is_func:
        P('als_func_runs')
    if w is not None:
        P('weights')
    sg = sc.get('single')
    if sg is not None and not is_func:
        k, j = sg['mode'], sg['index']
        idx = np.where(I[:, k] == j)[0]
        if len(idx) == 1 and idx[0] == 0:
            P('single_sample_slice_row0')
        elif len(idx) == 1:
            P('single_sample_slice_other_row')

    # ---- reference: the continuous run, original order; trajectory through the monitor (als) or by unit restarts (als_func)
    ref = run_job(sc, I, y, w, Y0, S)
    runs += 1
    if not check_contract(sc, ref, Y0, 'continuous run of %d sweeps' % S, V, expect_sweeps=S, expect_stop='nswp'):
        return finish(sc, V, stats, runs, sim, h, 0)
    if is_func:
        traj = []
        cur = Y0
        for s in range(S):
            o1 = run_job(sc, I, y, w, cur, 1)
            runs += 1
            if not check_contract(sc, o1, Y0, 'unit restart %d' % (s + 1), V, expect_sweeps=1, expect_stop='nswp'):
                return finish(sc, V, stats, runs, sim, h, 0)
            cur = o1.Y
            traj.append(cur)
    else:
        traj = [sn['Y'] for sn in ref.mon.snaps]
        for s, sn in enumerate(ref.mon.snaps):
            if sn['info'].get('nswp') != s + 1:
                V.append(viol('counter-nswp', 'callback %d saw info[nswp]=%r' % (s + 1, sn['info'].get('nswp'))))

    # ---- descent (invariant at every sweep)
    Jprev = objective(sc, Y0, I, y, w, H)
    # lamb below the rounding level of the Gram matrices (1e-13, 1e-20): the library solves the normal equations with a rank-revealing
    # driver that truncates there, and descent does fail on the pinned tree (known finding, probed separately by the kernel); for these
    # scenarios only the stationarity of the core updated last is judged (below), with a tolerance of 1e-6
    tiny = sc['lamb'] < 1e-8 and not sc.get('force_descent')
    for s, Ys in enumerate(traj if not tiny else []):
        J = objective(sc, Ys, I, y, w, H)
        P('descent_checked')
        if not (J <= Jprev * (1 + 1e-10) + 1e-300):
            V.append(viol('descent', 'sweep %d increased the regularised objective: %.17g -> %.17g (rel. %.3e), lamb=%g, %d samples%s'
                          % (s + 1, Jprev, J, (J - Jprev) / max(Jprev, 1e-300), sc['lamb'], len(y), ', weighted' if w is not None else '')))
            break
        Jprev = J

    # ---- per-core optimality of the core updated last (core 1), independently recomputed
    if not V:
        res = optimality_residual(sc, ref.Y, I, y, w, 1, H)
        P('optimality_checked')
        if tiny:
            P('optimality_checked_tiny_lamb')
        if not res <= (1e-6 if tiny else 1e-8):
            V.append(viol('optimality', 'core 1 (updated last) is not at the minimiser given the other cores: normal-equation residual %.3e (lamb=%g, %d samples)'
                          % (res, sc['lamb'], len(y))))

    # ---- the plan: segments, cancellation, restart from the returned tensor, permuted re-delivery
    cur = Y0
    Ic, yc, wc = I, y, w
    done = 0
    seg_ok = True
    shared = {} if sc.get('share_info') else None
    if shared is not None and len(plan) > 1:
        Fk('info_dict_reused_across_restarts')
    for si, seg in enumerate(plan):
        if seg['perm'] is not None and si > 0:
            pm = gen(seg['perm']).permutation(len(y))
            Ic, yc, wc = I[pm], y[pm], (None if w is None else w[pm])
            Fk('permuted_redelivery')
            P('permuted_restart')
        if si > 0:
            Fk('restart_from_result')
        if seg['how'] == 'cb':
            o = run_job(sc, Ic, yc, wc, cur, seg['a'] + 3, cb_at=seg['a'], jump=seg['jump'], info=shared)
            Fk('callback_cancel')
            P('cancelled_by_cb')
            exp_stop = 'cb'
        else:
            o = run_job(sc, Ic, yc, wc, cur, seg['a'], jump=seg['jump'], info=shared)
            exp_stop = 'nswp'
        if seg['jump']:
            Fk('clock_jump')
        runs += 1
        sim += o.sim_time
        if not check_contract(sc, o, Y0, 'segment %d %s' % (si + 1, cjson(seg)), V, expect_sweeps=seg['a'], expect_stop=exp_stop):
            seg_ok = False
            break
        cur = o.Y
        done += seg['a']
        h.append((si, o.info.get('stop'), o.info.get('nswp'), [G.tobytes() for G in cur]))
    permuted = any(seg['perm'] is not None and si > 0 for si, seg in enumerate(plan))
    if seg_ok and not V:
        if same_bits(cur, ref.Y):
            P('restart_bitwise')
        else:
            tol, linear = noise_tolerance(sc, lambda yp, Yp: run_job(sc, I, yp, w, Yp, S, keep=False), ref.Y, y, Y0)
            runs += 4
            diff = float(np.linalg.norm(flat(cur) - flat(ref.Y)))
            P('restart_not_bitwise')
            if linear and max(max_cond(sc, Yq, I, w, H) for Yq in [Y0] + traj) > 1e9:
                linear = False
            if not linear:
                P('restart_skipped_illconditioned')
            elif diff > tol:
                V.append(viol('order-independence' if permuted else 'restart-equivalence',
                              '%d sweeps as segments %s differ from the continuous run: |diff|=%.3e, 10 x measured response to 1e-9 noise %.3e (|Y|=%.3e)'
                              % (S, [(p['a'], p['how'], p['perm'] is not None) for p in plan], diff, tol, np.linalg.norm(flat(ref.Y)))))

    # ---- order independence from every state of the reference trajectory (single sweep, measured tolerance)
    if not V:
        g = gen(sc['dseed'] + 7)
        states = [Y0] + traj[:-1]
        for s, Ys in enumerate(states):
            pm = g.permutation(len(y))
            if s == 0 and sc.get('single') is not None and not is_func:
                # schedule: move the single-sample row of the special slice to row 0 / away from row 0
                k, j = sc['single']['mode'], sc['single']['index']
                idx = np.where(I[:, k] == j)[0]
                if len(idx) == 1:
                    rest = [i for i in pm if i != idx[0]]
                    pm = np.array(([idx[0]] + rest) if idx[0] != 0 else (rest + [idx[0]]))
            a = run_job(sc, I, y, w, Ys, 1, keep=False)
            b = run_job(sc, I[pm], y[pm], None if w is None else w[pm], Ys, 1, keep=False)
            runs += 2
            P('order_checked')
            if a.Y is None or b.Y is None:
                V.append(viol('exception', 'one-sweep run from state %d failed: %r %r' % (s, a.exc, b.exc)))
                break
            if same_bits(a.Y, b.Y):
                continue
            tol, linear = noise_tolerance(sc, lambda yp, Yp: run_job(sc, I, yp, w, Yp, 1, keep=False), a.Y, y, Ys)
            runs += 4
            if linear and max(max_cond(sc, Ys, I, w, H), max_cond(sc, a.Y, I, w, H)) > 1e9:
                linear = False
            if not linear:
                P('order_skipped_illconditioned')
                continue
            P('order_judged_by_probes')
            diff = float(np.linalg.norm(flat(a.Y) - flat(b.Y)))
            if diff > tol:
                V.append(viol('order-independence', 'one sweep from the state after sweep %d: permuting the training rows changes the result by %.3e '
                              '(10 x measured response to 1e-9 noise: %.3e, |Y|=%.3e)' % (s, diff, tol, np.linalg.norm(flat(a.Y)))))
                break
    nontrivial = 1 if (len(plan) >= 2 or any(p['how'] == 'cb' for p in plan)) and S >= 2 else 0
    return finish(sc, V, stats, runs, sim, h, nontrivial)


def execute_contract(sc):
    V = []
    stats = {}
    P = lambda k, c=1: stats.__setitem__('probe.' + k, stats.get('probe.' + k, 0) + c)
    sc = dict(sc, kind='als')
    I, y, w = build_data(sc)
    Y0 = make_tt(sc['n'], sc['r'], sc['y0seed'], dist='uniform')
    runs = 0
    h = []
    cl = sc['clause']
    n = sc['n']
    if cl in ('missing', 'skip'):
        ks = [k for k in range(len(n)) if n[k] >= 2]
        if not ks:
            return finish(sc, V, stats, runs, 0.0, h, 0)
        g = gen(sc['dseed'] + 3)
        k = ks[int(g.integers(0, len(ks)))]
        if 1 in ks and g.random() < 0.4:
            k = 1                                   # the core updated last: its other slices are checked for optimality below
        j = int(g.integers(0, n[k]))
        keep = I[:, k] != j
        I2, y2 = I[keep], y[keep]
        w2 = None if w is None else w[keep]
        if len(I2) == 0:
            return finish(sc, V, stats, runs, 0.0, h, 0)
        if cl == 'missing':
            extra_kw = None
            if len(n) >= 3 and gen(sc['dseed'] + 11).random() < 0.5:
                extra_kw = {'r': sc['r'] + 1}            # "rejected unless explicitly allowed" holds for the rank-adaptive mode as well
                w2 = None
            o = run_job(sc, I2, y2, w2, Y0, 2, extra=extra_kw)
            runs += 1
            if isinstance(o.exc, ValueError):
                P('missing_slice_rejected')
            else:
                V.append(viol('missing-slice', 'no sample for slice %d of mode %d: expected ValueError, got %s'
                              % (j, k, 'a result' if o.exc is None else repr(o.exc)[:200])))
        else:
            o = run_job(sc, I2, y2, w2, Y0, 2, extra={'allow_skip_cores': True})
            runs += 1
            if check_contract(sc, o, Y0, 'allow_skip_cores run', V, expect_sweeps=2, expect_stop='nswp'):
                if o.Y[k][:, j, :].tobytes() != Y0[k][:, j, :].tobytes():
                    V.append(viol('skip-cores', 'slice %d of mode %d has no data but was changed' % (j, k)))
                else:
                    P('skip_cores_unchanged')
                # the slices that do have data must still be trained: descent holds
                J0 = objective(sc, Y0, I2, y2, w2)
                J1 = objective(sc, o.Y, I2, y2, w2)
                if not J1 <= J0 * (1 + 1e-10):
                    V.append(viol('descent', 'allow_skip_cores run increased the objective %.6g -> %.6g' % (J0, J1)))
                # ... and the core updated last is at its minimiser on every slice that has data
                res = optimality_residual(sc, o.Y, I2, y2, w2, 1)
                P('optimality_checked')
                if not res <= 1e-8:
                    V.append(viol('optimality', 'allow_skip_cores run (no data for slice %d of mode %d): core 1 (updated last) is not at the minimiser on its slices with data: '
                                  'normal-equation residual %.3e' % (j, k, res)))
            h.append([G.tobytes() for G in (o.Y or [])])
    elif cl == 'adaptive':
        rmax = sc['rmax']
        g_ = gen(sc['dseed'] + 13)
        ex = {'r': rmax, 'lamb': sc['lamb']}
        if g_.random() < 0.5:
            ex['r_add'] = int(g_.integers(1, 3))          # growth per sweep smaller than the cap
        u_ = g_.random()
        if u_ < 0.3:
            ex['e_adap'] = [1e-12, 1e-6, 0.3][int(g_.integers(0, 3))]     # truncation threshold of the adaptive step: the cap holds for any value
        o = run_job(sc, I, y, None, Y0, int(g_.integers(3, 6)), extra=ex)
        runs += 1
        P('rank_adaptive')
        if o.exc is not None or o.abort is not None:
            V.append(viol('exception', 'rank-adaptive run (r=%d, start rank %d) raised %r %r' % (rmax, sc['r'], o.exc, o.abort)))
        else:
            why = wellformed_tt(o.Y, n)
            if why:
                V.append(viol('shape', 'rank-adaptive result: %s' % why))
            elif max(G.shape[2] for G in o.Y) > rmax:
                V.append(viol('rank-cap', 'rank-adaptive result has ranks %s > r=%d' % ([G.shape[2] for G in o.Y], rmax)))
            if o.info.get('stop') not in ('nswp', 'e', 'e_vld', 'cb'):
                V.append(viol('stop', 'rank-adaptive run: info[stop]=%r' % o.info.get('stop')))
            h.append([G.tobytes() for G in (o.Y or [])])
    elif cl == 'func_shrink':
        # the functional version with its dynamic mode size switched on (thr_pow > 0) on low-degree data: trailing basis functions are dropped;
        # the core updated last must still be the exact minimiser over the basis the result uses
        scf = dict(sc, kind='als_func')
        g = gen(sc['dseed'])
        d = len(n)
        X = g.uniform(-1, 1, (sc['m'], d))
        yv = np.ones(sc['m'])
        for k in range(d):
            yv = yv + 0.5 * (k + 1) * X[:, k] ** sc['deg'] + 0.3 * X[:, k]
        A0 = make_tt(n, sc['r'], sc['y0seed'], dist='uniform')
        o = run_job(scf, X, yv, None, A0, sc['nswp'])
        runs += 1
        if o.abort is not None or o.exc is not None or o.Y is None:
            V.append(viol('exception', 'als_func with thr_pow=%g raised %r %r' % (sc['thr_pow'], o.exc, o.abort)))
        else:
            why = wellformed_tt(o.Y)
            sizes = [G.shape[1] for G in o.Y]
            if why:
                V.append(viol('shape', 'als_func with thr_pow=%g: %s' % (sc['thr_pow'], why)))
            elif [G.shape[0] for G in o.Y] != [G.shape[0] for G in A0] or any(a > b for a, b in zip(sizes, n)):
                V.append(viol('shape', 'als_func with thr_pow=%g returned core shapes %s for a start tensor %s' % (sc['thr_pow'], [G.shape for G in o.Y], [G.shape for G in A0])))
            else:
                if sizes != list(n):
                    P('func_mode_size_reduced')
                H = basis_mats(scf, X)
                res = optimality_residual(scf, o.Y, X, yv, None, 1, H)
                P('optimality_checked')
                if not res <= 1e-8:
                    V.append(viol('optimality', 'als_func (thr_pow=%g, mode sizes %s -> %s): core 1 (updated last) is not at the minimiser given the other cores: '
                                  'normal-equation residual %.3e' % (sc['thr_pow'], list(n), sizes, res)))
            if o.info.get('nswp') != sc['nswp'] or o.info.get('stop') != 'nswp':
                V.append(viol('counter-nswp', 'als_func with thr_pow: info[nswp]=%r stop=%r for nswp=%d' % (o.info.get('nswp'), o.info.get('stop'), sc['nswp'])))
            h.append([G.tobytes() for G in o.Y])
    elif cl == 'stop_e':
        # a threshold that is certainly met after the first sweep / certainly not met
        o = run_job(sc, I, y, w, Y0, 6, e=1e9)
        runs += 1
        if check_contract(sc, o, Y0, 'e=1e9', V, expect_sweeps=1, expect_stop='e'):
            P('stop_e')
        o = run_job(sc, I, y, w, Y0, 3, e=0.0)
        runs += 1
        if o.Y is not None and o.info.get('stop') == 'e' and not (0 <= o.info.get('e', -1) <= 0.0):
            V.append(viol('stop', 'stop=e with info[e]=%r > e=0' % o.info.get('e')))
    elif cl == 'stop_e_vld':
        g = gen(sc['dseed'] + 5)
        Iv = np.stack([g.integers(0, k, 6) for k in n], axis=1)
        yv = g.standard_normal(6) + 2.0
        o = run_job(sc, I, y, w, Y0, 5, extra={'I_vld': Iv, 'y_vld': yv, 'e_vld': 1e9})
        runs += 1
        # e_vld is already met by the start tensor: the check before the first sweep sets the stop, one sweep is still done
        if o.exc is not None or o.Y is None:
            V.append(viol('exception', 'e_vld run raised %r' % (o.exc,)))
        else:
            if o.info.get('stop') != 'e_vld':
                V.append(viol('stop', 'e_vld=1e9 with validation data: stop=%r' % o.info.get('stop')))
            else:
                P('stop_e_vld')
            ev = np.linalg.norm(predict(o.Y, Iv) - yv) / np.linalg.norm(yv)
            if abs(o.info.get('e_vld', -1) - ev) > 1e-9 * max(1, ev):
                V.append(viol('info-e_vld', 'info[e_vld]=%r, validation error of the returned tensor is %r' % (o.info.get('e_vld'), ev)))
        # a validation threshold without validation data has nothing to be compared with: the run does its nswp sweeps like the plain run
        if not V:
            ns_ = int(g.integers(2, 5))
            sc_nv = dict(sc, vld=False)
            oa = run_job(sc_nv, I, y, w, Y0, ns_, extra={'e_vld': [1e9, 0.5, 1e-3][int(g.integers(0, 3))]})
            ob = run_job(sc_nv, I, y, w, Y0, ns_)
            runs += 2
            P('e_vld_without_data')
            if oa.Y is None or ob.Y is None:
                if (oa.Y is None) != (ob.Y is None):
                    V.append(viol('exception', 'als with e_vld but without validation data: %r, the same call without e_vld: %r' % (oa.exc, ob.exc)))
            elif oa.info.get('stop') != ob.info.get('stop') or oa.info.get('nswp') != ob.info.get('nswp') or not same_bits(oa.Y, ob.Y):
                V.append(viol('stop', 'als with e_vld but without validation data: stop=%r after %r sweeps; the same call without e_vld: stop=%r after %r sweeps%s'
                              % (oa.info.get('stop'), oa.info.get('nswp'), ob.info.get('stop'), ob.info.get('nswp'),
                                 '' if same_bits(oa.Y, ob.Y) else ', other tensor')))
        # a threshold that is crossed at some later sweep: the run must stop right after that sweep, with the tensor a plain run of that many sweeps returns
        if not V:
            ref = run_job(sc, I, y, w, Y0, 5, extra={'I_vld': Iv, 'y_vld': yv})
            runs += 1
            if ref.Y is not None and len(ref.mon.snaps) == 5:
                evs = [sn['info'].get('e_vld') for sn in ref.mon.snaps]
                s_pick = 1 + int(g.integers(0, 4))
                thr = float(evs[s_pick]) * (1 + 1e-9) if evs[s_pick] > 0 else None
                if thr is not None:
                    first = next(i for i, v in enumerate(evs) if v <= thr)
                    e0 = float(np.linalg.norm(predict(Y0, Iv) - yv) / np.linalg.norm(yv))
                    if e0 > thr:
                        o2 = run_job(sc, I, y, w, Y0, 5, extra={'I_vld': Iv, 'y_vld': yv, 'e_vld': thr})
                        runs += 1
                        P('stop_e_vld_mid_run')
                        if o2.Y is None:
                            V.append(viol('exception', 'als with e_vld=%g raised %r' % (thr, o2.exc)))
                        elif o2.info.get('stop') != 'e_vld' or o2.info.get('nswp') != first + 1 or len(o2.mon.snaps) != first + 1:
                            V.append(viol('stop', 'validation errors per sweep %s, e_vld=%.6g: expected stop=e_vld after sweep %d, got stop=%r after %r sweeps (%d callbacks)'
                                          % (['%.4g' % v for v in evs], thr, first + 1, o2.info.get('stop'), o2.info.get('nswp'), len(o2.mon.snaps))))
                        elif not same_bits(o2.Y, ref.mon.snaps[first]['Y']):
                            V.append(viol('stop', 'als stopped by e_vld after sweep %d returns another tensor than a plain run of %d sweeps (rel. diff %.3e)'
                                          % (first + 1, first + 1, float(np.linalg.norm(flat(o2.Y) - flat(ref.mon.snaps[first]['Y'])) / max(np.linalg.norm(flat(o2.Y)), 1e-300)))))
    return finish(sc, V, stats, runs, 0.0, h, 1 if runs else 0)


def finish(sc, V, stats, runs, sim, h, nontrivial):
    sample = {k: sc[k] for k in ('kind', 'n', 'r', 'm', 'lamb', 'w', 'single', 'plan', 'clause') if k in sc}
    return {'violations': V, 'runs': runs, 'stats': stats, 'digest': dig(h, [v['oracle'] for v in V]),
            'nontrivial': nontrivial, 'sim_time': sim, 'sample': sample}


def execute(sc):
    sc = copy.deepcopy(sc)
    if sc['kind'] == 'contract':
        return execute_contract(sc)
    return execute_plan(sc)


def classify(sc):
    """Class label used by the kernel to stratify the sample it re-executes in another process environment (python -O)."""
    return '%s/%s' % (sc['kind'], sc.get('clause'))


def shrink(sc, v):
    def cp():
        return copy.deepcopy(sc)
    for i in range(len(sc['plan'])):
        if len(sc['plan']) > 1:
            s = cp(); del s['plan'][i]; yield s
    for i, seg in enumerate(sc['plan']):
        if seg['a'] > 1:
            s = cp(); s['plan'][i]['a'] -= 1; yield s
        if seg['how'] == 'cb':
            s = cp(); s['plan'][i]['how'] = 'nswp'; yield s
        if seg['perm'] is not None:
            s = cp(); s['plan'][i]['perm'] = None; yield s
        if seg['jump']:
            s = cp(); s['plan'][i]['jump'] = 0.0; yield s
    for key, val in (('w', False), ('dup', 0), ('log', False), ('ydist', 'normal'), ('basis', 'cheb'), ('share_info', False)):
        if sc.get(key) != val:
            s = cp(); s[key] = val; yield s
    if sc['m'] > 1:
        s = cp(); s['m'] = sc['m'] // 2; yield s
        s = cp(); s['m'] = sc['m'] - 1; yield s
    if len(sc['n']) > 2 and sc.get('clause') != 'adaptive':
        s = cp(); s['n'] = sc['n'][:-1]
        if s.get('single') and s['single']['mode'] >= len(s['n']):
            s['single'] = None
        yield s
    for k in range(len(sc['n'])):
        if sc['n'][k] > 1 and sc['kind'] != 'als_func' and not str(sc.get('clause', '')).startswith('func'):
            s = cp(); s['n'][k] -= 1
            if s.get('single') and s['single']['mode'] == k and (s['single']['index'] >= s['n'][k] or s['n'][k] < 2):
                s['single'] = None
            yield s
    if sc['kind'] == 'als_func' and sc['n'][0] > 2:
        s = cp(); s['n'] = [sc['n'][0] - 1] * len(sc['n']); yield s
    if sc['r'] > 1:
        s = cp(); s['r'] -= 1; yield s
    if sc.get('single') is not None:
        s = cp(); s['single'] = None; yield s
