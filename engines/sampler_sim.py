"""sampler_sim: the samplers of teneva with the randomness source behind `seed` owned by
the simulator.

`utils._rand` hands any non-int object through, so the simulator passes SimGen, an object
with the Generator methods the samplers use. SimGen records every request (a, size,
replace, p) and *decides* every draw according to the scenario's schedule while honouring
the request's contract. The sequence of draws is the schedule; one schedule is one path of
the conditional chain. For a sampled tensor one run with m = number of entries steers
sample s through multi-index s, so every path is visited (exhaustive per tensor)."""
import copy
import itertools

import numpy as np

from sim import boot
from sim.util import SimAbort, cjson, dig, tt_full
from sim.world import gen, make_tt, poison_heap

teneva = boot.boot()

NAME = 'sampler_sim'
LEVEL = {'C14': 'exploration'}
RULE = {'C14': 'scenario = seeded TT-tensor (d 2..4, <= 300 entries, ranks <= 4; positive cores, squares of mixed-sign tensors, tensors with '
               'exact zeros; arbitrary tensors for squared sampling) plus a draw schedule for the simulator-owned generator: "steer" visits every '
               'multi-index (product of recorded conditionals vs entry/sum), adversarial schedules (max, min, ties, repeats, pseudo-random) check '
               'shapes, bounds, uniqueness, LHS counts and the sample_tt layout, "chi2" uses a real PCG64 generator. evaluations = sampler calls; '
               'non-trivial = steered runs that visited >= 4 multi-indices, adversarial runs with >= 1 recorded draw, chi2 runs; distinct = distinct scenario digests.'}
COMPONENTS = {
    'real': ['teneva.sample, sample_square, sample_lhs, sample_rand, sample_rand_poi, sample_tt, sample_func and what they call (orthogonalize, einsum)'],
    'stub': ['generator object behind `seed` (SimGen: records every request, decides every draw)', 'real numpy Generator(PCG64) only in the chi-square fallback'],
}
ASSUMPTIONS = {'C14': ['probability tolerance 1e-12 + 1e-9*p with unsert=0 and 2*n_0*unsert/sum with the default unsert',
                       'chi-square fallback alarms only below p = 1e-12 (deterministic for a given seed)',
                       'tensors bounded by 300 entries so that every multi-index is visited']}
EXPECTED_PROBES = {'C14': ['steer_sample_paths', 'steer_square_paths', 'zero_probability_paths', 'unique_restart_path', 'unique_impossible_rejected',
                           'lhs_checked', 'sample_tt_checked', 'chi2_runs', 'adversarial_runs', 'sample_func_runs', 'generator_object_real', 'highdim_runs']}
BUDGET = {'C14': {'quick': {'n': 5000, 'max_s': 150, 'chunk': 10}, 'thorough': {'n': 250000, 'max_s': 3000, 'chunk': 50}}}
UNSERT = 1.E-10


# ------------------------------------------------------------------ the simulator-owned generator

class SimGen:
    """Randomness source owned by the simulator. policy(request) -> value decides each draw."""

    def __init__(self, policy, cap=200000):
        self.policy = policy
        self.log = []           # (method, a, size, replace, p or None, returned)
        self.bad = []           # malformed requests
        self.cap = cap

    def _rec(self, *item):
        self.log.append(item)
        if len(self.log) > self.cap:
            raise SimAbort('draw cap exceeded')

    def choice(self, a, size=None, replace=True, p=None, axis=0, shuffle=True):
        pool = None
        if isinstance(a, (int, np.integer)):
            n = int(a)
        else:
            pool = np.asarray(a)
            n = len(pool)
        if p is not None:
            p = np.array(p, dtype=float, copy=True)
            if p.shape != (n,):
                self.bad.append('choice: p has shape %s for a=%d' % (p.shape, n))
            elif not np.all(np.isfinite(p)):
                self.bad.append('choice: p contains non-finite values %s' % p.tolist()[:8])
            elif (p < 0).any():
                self.bad.append('choice: negative probability %g' % p.min())
            elif abs(p.sum() - 1) > 1e-8:
                self.bad.append('choice: probabilities sum to %.12g' % p.sum())
        k = 1 if size is None else int(np.prod(size))
        if not replace and k > n:
            raise ValueError('Cannot take a larger sample than population when replace is False')
        req = {'method': 'choice', 'n': n, 'k': k, 'replace': bool(replace), 'p': p, 'no': len(self.log)}
        idx = np.asarray(self.policy(req), dtype=int).reshape(-1)
        if len(idx) != k or (idx < 0).any() or (idx >= n).any():
            raise RuntimeError('harness: policy returned invalid draw %s for %s' % (idx, {k_: v for k_, v in req.items() if k_ != 'p'}))
        if not replace and len(set(idx.tolist())) != k:
            raise RuntimeError('harness: policy returned repeated values for replace=False')
        self._rec('choice', n, size, bool(replace), p, idx.copy())
        out = idx if pool is None else pool[idx]
        if size is None:
            return out[0]
        return np.array(out).reshape(size)

    def shuffle(self, x, axis=0):
        n = len(x)
        req = {'method': 'shuffle', 'n': n, 'no': len(self.log)}
        perm = np.asarray(self.policy(req), dtype=int)
        if sorted(perm.tolist()) != list(range(n)):
            raise RuntimeError('harness: policy returned a non-permutation')
        x[...] = np.array(x)[perm]
        self._rec('shuffle', n, None, None, None, perm.copy())

    def permutation(self, x, axis=0):
        arr = np.arange(x) if isinstance(x, (int, np.integer)) else np.array(x)
        self.shuffle(arr)
        return arr

    def uniform(self, low=0.0, high=1.0, size=None):
        k = 1 if size is None else int(np.prod(size))
        req = {'method': 'uniform', 'k': k, 'no': len(self.log)}
        u = np.asarray(self.policy(req), dtype=float).reshape(-1)
        if len(u) != k or (u < 0).any() or (u >= 1).any():
            raise RuntimeError('harness: policy returned invalid uniform draw')
        self._rec('uniform', None, size, None, None, u.copy())
        val = low + (high - low) * u
        return float(val[0]) if size is None else val.reshape(size)

    def random(self, size=None):
        return self.uniform(0.0, 1.0, size)

    def normal(self, loc=0.0, scale=1.0, size=None):
        k = 1 if size is None else int(np.prod(size))
        req = {'method': 'normal', 'k': k, 'no': len(self.log)}
        z = np.asarray(self.policy(req), dtype=float).reshape(-1)
        self._rec('normal', None, size, None, None, z.copy())
        val = loc + scale * z
        return float(val[0]) if size is None else val.reshape(size)

    def standard_normal(self, size=None):
        return self.normal(0.0, 1.0, size)

    def integers(self, low, high=None, size=None, dtype=int, endpoint=False):
        if high is None:
            low, high = 0, low
        n = int(high) - int(low) + (1 if endpoint else 0)
        k = 1 if size is None else int(np.prod(size))
        req = {'method': 'choice', 'n': n, 'k': k, 'replace': True, 'p': None, 'no': len(self.log)}
        idx = np.asarray(self.policy(req), dtype=int).reshape(-1)
        self._rec('integers', n, size, True, None, idx.copy())
        out = idx + int(low)
        return int(out[0]) if size is None else out.reshape(size)


def adversarial_policy(kind, seed):
    """Draw schedules that honour every request's contract."""
    g = gen(seed)

    def pol(req):
        m = req['method']
        if m == 'shuffle':
            n = req['n']
            if kind == 'max':
                return np.arange(n)[::-1]
            if kind == 'min':
                return np.arange(n)
            return g.permutation(n)
        if m == 'uniform':
            if kind == 'max':
                return np.full(req['k'], 1 - 2.0 ** -53)
            if kind == 'min':
                return np.zeros(req['k'])
            return g.random(req['k'])
        if m == 'normal':
            return g.standard_normal(req['k'])
        n, k, p = req['n'], req['k'], req['p']
        if not req['replace']:
            if kind == 'max':
                return np.arange(n)[::-1][:k]
            if kind == 'min':
                return np.arange(k)
            return g.permutation(n)[:k]
        if p is not None and np.all(np.isfinite(p)) and p.sum() > 0:
            # outcomes of non-negligible probability only: an adversarial schedule is still a schedule a real
            # generator could produce (entering a 1e-10 noise-floor cell is not what the statement is about)
            sup = np.where(p > 1e-6)[0]
        else:
            sup = np.arange(n)
        if kind == 'max':
            return np.full(k, sup[-1])
        if kind == 'min':
            return np.full(k, sup[0])
        if kind == 'repeat':
            # heavily repeated values wherever replace=True allows it
            return np.full(k, sup[int(g.integers(0, len(sup)))])
        if kind == 'tie':
            best = np.where(p == p.max())[0] if p is not None else sup
            return g.choice(best, k)
        if p is not None:
            pp = np.maximum(np.nan_to_num(p), 0)
            pp = pp / pp.sum() if pp.sum() > 0 else None
            return g.choice(n, k, p=pp)
        return g.integers(0, n, k)
    return pol


# ------------------------------------------------------------------ scenario generation

def gen_shape(rng, max_entries=300):
    while True:
        d = rng.choice([2, 2, 3, 3, 4])
        n = [rng.choice([1, 2, 2, 3, 3, 4, 5, 6]) for _ in range(d)]
        if int(np.prod(n)) <= max_entries and max(n) > 1:
            return n


def generate(rng, prop, tier):
    mode = rng.choice(['steer_sample', 'steer_sample', 'steer_square', 'steer_square', 'adversarial', 'adversarial', 'adversarial', 'chi2', 'highdim'])
    if tier == 'quick' and mode == 'chi2' and rng.random() < 0.6:
        mode = 'adversarial'
    sc = {'engine': NAME, 'mode': mode, 'n': gen_shape(rng), 'r': rng.randint(1, 4), 'tseed': rng.randrange(1 << 30),
          'pseed': rng.randrange(1 << 30)}
    if mode == 'highdim':
        # many dimensions (the number of entries exceeds 2^63 in some): shape / bounds / uniqueness clauses only
        d = rng.choice([12, 30, 62, 63, 64, 65, 70])
        sc['n'] = [rng.choice([2, 2, 2, 3, 4]) for _ in range(d)]
        if rng.random() < 0.3:
            sc['n'] = [rng.choice([2, 4, 10])] * d
        sc['r'] = rng.randint(1, 2)
        sc['mode'] = 'adversarial'
        sc['fn'] = rng.choice(['sample', 'sample_square', 'sample_square_unique', 'sample_square_unique', 'sample_lhs', 'sample_rand', 'sample_tt'])
        sc['policy'] = rng.choice(['prng', 'prng', 'max', 'min'])
        sc['m'] = rng.choice([1, 2, 3, 5])
        sc['tkind'] = 'pos' if sc['fn'] == 'sample' else rng.choice(['normal', 'hdscaled', 'hdscaled'])
        sc['rtt'] = rng.randint(1, 2)
        sc['use'] = rng.choice(['simgen', 'int', 'generator'])
        sc['highdim'] = True
        return sc
    if mode == 'steer_sample':
        sc['tkind'] = rng.choice(['pos', 'pos', 'sq', 'zeros', 'delta', 'sqdiff', 'gauge', 'gauge', 'orthpos', 'posscaled', 'posscaled', 'overpos'])
        sc['prehistory'] = rng.random() < 0.3
        sc['unsert'] = rng.choice([0.0, 0.0, UNSERT])
        if sc['tkind'] in ('sq', 'sqdiff'):
            sc['r'] = rng.randint(1, 2)
    elif mode == 'steer_square':
        sc['tkind'] = rng.choice(['normal', 'normal', 'zeros', 'scaled', 'nearorth', 'nearorth', 'overranked', 'overranked', 'sumdup', 'sumdup', 'rareslice', 'rareslice', 'zeropad', 'zeropad'])
        sc['prehistory'] = rng.random() < 0.3
    elif mode == 'adversarial':
        sc['fn'] = rng.choice(['sample', 'sample', 'sample_square', 'sample_square_unique', 'sample_square_unique', 'sample_lhs', 'sample_lhs',
                               'sample_rand', 'sample_rand_poi', 'sample_tt', 'sample_tt', 'unique_impossible', 'unique_full_support', 'sample_func'])
        sc['policy'] = rng.choice(['max', 'min', 'repeat', 'tie', 'prng', 'prng'])
        sc['m'] = rng.choice([1, 2, 3, 5, 7, 10, 16, 25])
        if sc['fn'] in ('sample_lhs', 'sample_rand', 'sample_rand_poi') and rng.random() < 0.6:
            # all sample counts: large ones, in particular multiples of a mode size
            sc['m'] = rng.choice(sc['n']) * rng.randint(1, 400) if rng.random() < 0.7 else rng.randint(26, 3000)
        sc['tkind'] = rng.choice(['pos', 'sqdiff', 'gauge', 'orthpos']) if sc['fn'] == 'sample' else rng.choice(['normal', 'scaled', 'nearorth'])
        if sc['tkind'] == 'sqdiff':
            sc['r'] = 1
        sc['rtt'] = rng.randint(1, 3)
        sc['use'] = rng.choice(['simgen', 'simgen', 'int', 'generator'])
        if sc['fn'] in ('sample_lhs', 'sample_rand', 'sample_rand_poi', 'sample_tt') and rng.random() < 0.35:
            # long modes (and sample counts below / slightly above a mode size)
            sc['n'] = [rng.choice([16, 17, 40, 64, 100, 200, 300]) if rng.random() < 0.7 else rng.randint(2, 6) for _ in range(rng.randint(2, 4))]
            sc['m'] = rng.choice([1, 2, 3, 4, 5, 7, 17, 33, 65, 201, 210])
            sc['rtt'] = rng.randint(1, 2)
        sc['ntype'] = rng.choice(['list', 'list', 'array', 'farray', 'flist', 'mixed'])     # "list or np.ndarray of int/float"
        sc['mfloat'] = rng.random() < 0.3                                                  # "m (int, float)"
    else:
        sc['fn'] = rng.choice(['sample', 'sample_square'])
        sc['n'] = gen_shape(rng, 40)
        sc['tkind'] = 'pos' if sc['fn'] == 'sample' else 'normal'
        sc['use'] = rng.choice(['int', 'generator'])
        sc['N'] = 20000
    return sc


def build_tensor(sc):
    n, r, kind = sc['n'], sc['r'], sc['tkind']
    g = gen(sc['tseed'] + 1)
    if kind == 'rareslice':
        # one slice carries a tiny share (1e-12 .. 1e-20 after squaring) of the total weight
        Y = make_tt(n, r, sc['tseed'], dist='normal')
        k = int(g.integers(0, len(n)))
        if n[k] > 1:
            Y[k][:, int(g.integers(0, n[k])), :] *= 10.0 ** float(-g.integers(6, 11))
        return Y
    if kind == 'sumdup':
        # A + (B + B) without rounding: block cores with exactly repeated (linearly dependent) rows / columns
        def tt_add(P, Q):
            out = []
            for k, (a, b) in enumerate(zip(P, Q)):
                if k == 0:
                    out.append(np.concatenate([a, b], axis=2))
                elif k == len(P) - 1:
                    out.append(np.concatenate([a, b], axis=0))
                else:
                    top = np.concatenate([a, np.zeros((a.shape[0], a.shape[1], b.shape[2]))], axis=2)
                    bot = np.concatenate([np.zeros((b.shape[0], b.shape[1], a.shape[2])), b], axis=2)
                    out.append(np.concatenate([top, bot], axis=0))
            return out
        A = make_tt(n, 1, sc['tseed'], dist='normal')
        B = make_tt(n, min(r, 2), sc['tseed'] + 3, dist='normal')
        order = int(g.integers(0, 3))
        return tt_add(A, tt_add(B, B)) if order == 0 else (tt_add(tt_add(B, B), A) if order == 1 else tt_add(B, tt_add(A, B)))
    if kind == 'zeropad':
        # ranks padded with exact zeros (as assembling a tensor into preallocated cores leaves them): one rank slice of a core
        # vanishes identically while the matching slice of the neighbour does not
        Y = make_tt(n, r + 1, sc['tseed'], dist='normal')
        for _ in range(int(g.integers(1, 3))):
            k = int(g.integers(0, len(n) - 1))
            j = int(g.integers(0, r + 1))
            if g.random() < 0.5:
                Y[k][:, :, j] = 0.0
            else:
                Y[k + 1][j, :, :] = 0.0
        return Y
    if kind in ('overranked', 'overpos'):
        # a rank profile with bonds larger than the neighbouring cores can carry (r_k > n_k * r_{k+1}), as un-rounded sums / products have
        rr = [int(g.integers(1, 9)) for _ in range(len(n) - 1)]
        return make_tt(n, rr, sc['tseed'], dist='pos' if kind == 'overpos' else 'normal')
    if kind == 'pos':
        return make_tt(n, r, sc['tseed'], dist='pos')
    if kind == 'posscaled':
        # a non-negative tensor of tiny total mass (e.g. an unnormalised density): absolute noise floors matter here
        Y = make_tt(n, r, sc['tseed'], dist='pos')
        k = int(g.integers(0, len(n)))
        Y[k] = Y[k] * 10.0 ** float(-g.integers(3, 10))
        return Y
    if kind == 'hdscaled':
        # many cores of magnitude 2^-27 or 2^26 each: the norm of the tensor is far outside the double range, every core is harmless
        Y = make_tt(n, r, sc['tseed'], dist='normal')
        f = 2.0 ** float(g.choice([-27, -27, 26, -60]))
        return [G * f for G in Y]
    if kind in ('normal', 'scaled'):
        Y = make_tt(n, r, sc['tseed'], dist='normal')
        if kind == 'scaled':
            for k, G in enumerate(Y):
                G *= 10.0 ** float(g.integers(-6, 7))
        return Y
    if kind == 'sq':
        Y = make_tt(n, r, sc['tseed'], dist='normal')
        return [np.einsum('aib,cid->acibd', G, G).reshape(G.shape[0] ** 2, G.shape[1], G.shape[2] ** 2) for G in Y]
    if kind in ('gauge', 'orthpos', 'nearorth'):
        Y = make_tt(n, r, sc['tseed'], dist='pos' if kind != 'nearorth' else 'normal')
        if kind == 'gauge':
            # the same non-negative tensor with mixed-sign cores: G_k <- G_k S, G_{k+1} <- S^-1 G_{k+1} (random well conditioned S, or a sign flip)
            for k in range(len(n) - 1):
                rr = Y[k].shape[2]
                if g.random() < 0.5:
                    S = np.diag(g.choice([-1.0, 1.0], rr))
                else:
                    S = np.linalg.qr(g.standard_normal((rr, rr)))[0] @ np.diag(g.uniform(0.5, 2.0, rr)) * g.choice([-1.0, 1.0])
                Y[k] = np.einsum('aib,bc->aic', Y[k], S)
                Y[k + 1] = np.einsum('ab,bic->aic', np.linalg.inv(S), Y[k + 1])
            return Y
        # right-orthogonalise cores d-1..1 (own QR sweep): cores get mixed signs, the tensor stays the same
        for k in range(len(n) - 1, 0, -1):
            r1, nk, r2 = Y[k].shape
            Q, R = np.linalg.qr(Y[k].reshape(r1, nk * r2).T)
            Y[k] = Q.T.reshape(-1, nk, r2)
            Y[k - 1] = np.einsum('aib,bc->aic', Y[k - 1], R.T)
        if kind == 'nearorth':
            # nearly, but not exactly, orthogonal cores (e.g. stored in single precision)
            if g.random() < 0.5:
                Y = [G.astype(np.float32).astype(np.float64) for G in Y]
            else:
                Y = [G * (1.0 + 3e-7 * g.standard_normal(G.shape)) for G in Y]
        return Y
    if kind == 'sqdiff':
        # square of X - X' where X' differs from X in one slice only: most entries are exactly zero in
        # exact arithmetic but are computed from cancelling signed terms (rounding noise of either sign)
        X = make_tt(n, r, sc['tseed'], dist='normal')
        X2 = [G.copy() for G in X]
        k = int(g.integers(0, len(n)))
        X2[k][:, int(g.integers(0, n[k])), :] *= 1.5
        D = []
        for k, (A, B) in enumerate(zip(X, X2)):
            if k == 0:
                D.append(np.concatenate([A, -B], axis=2))
            elif k == len(n) - 1:
                D.append(np.concatenate([A, B], axis=0))
            else:
                C = np.zeros((A.shape[0] + B.shape[0], n[k], A.shape[2] + B.shape[2]))
                C[:A.shape[0], :, :A.shape[2]] = A
                C[A.shape[0]:, :, A.shape[2]:] = B
                D.append(C)
        return [np.einsum('aib,cid->acibd', G, G).reshape(G.shape[0] ** 2, G.shape[1], G.shape[2] ** 2) for G in D]
    if kind == 'zeros':
        Y = make_tt(n, r, sc['tseed'], dist='pos' if sc['mode'] == 'steer_sample' else 'normal')
        # exact zeros: zero a few slices, and one whole rank-channel
        for _ in range(int(g.integers(1, 4))):
            k = int(g.integers(0, len(n)))
            if n[k] > 1:
                Y[k][:, int(g.integers(0, n[k])), :] = 0.0
        return Y
    if kind == 'delta':
        Y = [np.zeros((1, k, 1)) for k in n]
        for k, G in enumerate(Y):
            G[0, int(g.integers(0, n[k])), 0] = 1.0 + k
        # plus a second positive term so that several entries are non-zero
        Z = make_tt(n, 1, sc['tseed'], dist='pos')
        if g.random() < 0.5:
            return Y
        out = []
        for k, (A, B) in enumerate(zip(Y, Z)):
            if k == 0:
                out.append(np.concatenate([A, B], axis=2))
            elif k == len(n) - 1:
                out.append(np.concatenate([A, B], axis=0))
            else:
                C = np.zeros((2, n[k], 2))
                C[0, :, 0] = A[0, :, 0]
                C[1, :, 1] = B[0, :, 0]
                out.append(C)
        return out
    raise ValueError(kind)


def viol(oracle, detail):
    return {'property': 'C14', 'oracle': oracle, 'detail': detail}


# ------------------------------------------------------------------ steered runs: every multi-index

def steer(sc, fn):
    """Run the sampler with m = number of entries; sample s is steered through multi-index s.

    Whether a path may be entered is decided from the dense reference (truth), never from what the sampler offers: a prefix
    whose true marginal is zero up to the rounding scale of the contraction is a zero cell; the path stops there (the draw is
    redirected to the most probable outcome) and the probability the sampler offered for the zero cell is recorded.
    Returns (Y, multi, result rows, per-path product of conditionals, step of termination, offered mass at termination, rows drawn, SimGen)."""
    n = sc['n']
    d = len(n)
    Y = build_tensor(sc)
    if sc.get('prehistory'):
        # the same list / array objects held another tensor during an earlier call (state kept across calls must not leak)
        Yreal = [G.copy() for G in Y]
        g = gen(sc['tseed'] + 5)
        for G in Y:
            G[...] = np.abs(g.standard_normal(G.shape)) + 0.05 if fn == 'sample' else g.standard_normal(G.shape)
        if fn == 'sample':
            teneva.sample(Y, 3, seed=int(sc['pseed'] % 1000))
        else:
            teneva.sample_square(Y, 3, unique=False, seed=int(sc['pseed'] % 1000))
        for G, R in zip(Y, Yreal):
            G[...] = R
    multi = list(itertools.product(*[range(k) for k in n]))
    N = len(multi)
    prob = np.ones(N)
    term = [None] * N            # step at which the path met a zero cell
    offered = np.zeros(N)        # path probability the sampler offered for that zero cell
    cond = np.full((N, d), np.nan)   # the conditional probability used at each step of each path
    actual = np.zeros((N, d), dtype=int)
    state = {'step': 0, 's': 0}
    T_ = tt_full(Y)
    Tabs_ = tt_full([np.abs(G) for G in Y])
    W_, Wabs_ = (T_, Tabs_) if fn == 'sample' else (T_ * T_, Tabs_ * Tabs_)
    tot_ = max(float(W_.sum()), 1e-300)

    def zero_cell(prefix):
        return float(W_[prefix].sum()) <= 1e3 * 2.2e-16 * float(Wabs_[prefix].sum()) + 1e-300

    def best(p):
        return int(np.nanargmax(np.nan_to_num(np.asarray(p, dtype=float), nan=-1.0)))

    def pol(req):
        if req['method'] != 'choice' or req['p'] is None:
            raise RuntimeError('harness: unexpected request %s in a steered run' % req['method'])
        p = req['p']
        if req['k'] == N and state['step'] == 0:
            want = np.array([mi[0] for mi in multi])
            out = want.copy()
            for s in range(N):
                ps = p[want[s]] if np.isfinite(p[want[s]]) else 0.0
                if zero_cell(multi[s][:1]):
                    term[s] = 0
                    offered[s] = ps
                    out[s] = best(p)
                else:
                    prob[s] *= ps
                    cond[s, 0] = ps
            state['step'] = 1
            state['s'] = 0
            actual[:, 0] = out
            return out
        if req['k'] != 1:
            raise RuntimeError('harness: unexpected vector draw of %d in a steered run' % req['k'])
        s, j = state['s'], state['step']
        want = multi[s][j]
        out = want
        if term[s] is None:
            ps = p[want] if np.isfinite(p[want]) else 0.0
            if zero_cell(multi[s][:j + 1]):
                term[s] = j
                offered[s] = prob[s] * ps
                out = best(p)
            else:
                prob[s] *= ps
                cond[s, j] = ps
        else:
            out = best(p)
        actual[s, j] = out
        state['s'] += 1
        if state['s'] == N:
            state['s'] = 0
            state['step'] += 1
        return [out]

    sg = SimGen(pol)
    if fn == 'sample':
        res = teneva.sample(Y, N, seed=sg, unsert=sc['unsert'])
    else:
        res = teneva.sample_square(Y, N, unique=False, seed=sg)
    sg.cond = cond
    return Y, multi, res, prob, term, offered, actual, sg


def execute_steer(sc):
    V = []
    stats = {}
    fn = 'sample' if sc['mode'] == 'steer_sample' else 'sample_square'
    T0 = tt_full(build_tensor(sc))
    if not (np.abs(T0).sum() > 0):
        # the zero tensor defines no distribution: outside the statement
        stats['probe.zero_tensor_skipped'] = 1
        return fin(sc, V, stats, 0, 0, ['zero'])
    if sc.get('prehistory'):
        stats['fault.objects_held_another_tensor_in_an_earlier_call'] = 1
    try:
        Y, multi, res, prob, term, offered, actual, sg = steer(sc, fn)
    except SimAbort as e:
        return fin(sc, [viol('liveness', '%s: %s' % (fn, e))], stats, 1, 0, [])
    except RuntimeError as e:
        if str(e).startswith('harness: unexpected'):
            # the sampler does not follow the audited draw protocol: the audit cannot judge it (chi-square fallback does)
            stats['probe.audit_skipped_protocol'] = 1
            return fin(sc, V, stats, 1, 0, ['skip'])
        raise
    except Exception as e:
        return fin(sc, [viol('exception', '%s raised %s: %s' % (fn, type(e).__name__, str(e)[:300]))], stats, 1, 0, [])
    T = tt_full(Y)
    W = T if fn == 'sample' else T * T
    tot = float(W.sum())
    # rounding scale of the dense reference itself (and of any implementation): the same contraction with |cores|
    Tabs = tt_full([np.abs(G) for G in Y])
    Wabs = Tabs if fn == 'sample' else Tabs * Tabs
    n = sc['n']
    N = len(multi)
    for b in sg.bad:
        V.append(viol('invalid-p', '%s offered a malformed distribution: %s' % (fn, b)))
        break
    # returned rows are exactly the draws (index bookkeeping), integer, in bounds
    res = np.asarray(res)
    if res.shape != (N, len(n)) or res.dtype.kind not in 'iu':
        V.append(viol('shape', '%s returned shape %s dtype %s for m=%d, d=%d' % (fn, res.shape, res.dtype, N, len(n))))
    elif not np.array_equal(res, actual):
        s = int(np.where((res != actual).any(axis=1))[0][0])
        V.append(viol('bookkeeping', '%s: sample %d was drawn as %s but returned as %s' % (fn, s, actual[s].tolist(), res[s].tolist())))
    # the documented model: sample() adds the noise floor `unsert` to the first-mode marginal (and only there)
    u = sc.get('unsert', 0.0) if fn == 'sample' else 0.0
    w0 = W.reshape(n[0], -1).sum(axis=1)
    den0 = float(np.maximum(w0 + u, 0).sum())
    Wabs_tot = float(Wabs.sum())
    worst = 0.0
    nz = 0
    for s, mi in enumerate(multi):
        rnd = 1e4 * 2.2e-16 * float(Wabs[mi[:1]].sum()) / tot
        if term[s] is not None:
            nz += 1
            j = term[s]
            allowed = 1e-12 + 1e4 * 2.2e-16 * float(Wabs[mi[:j + 1]].sum()) / tot
            if j == 0:
                allowed += (u / den0) * (1 + 1e-6) if den0 > 0 else 0.0
            if offered[s] > allowed:
                V.append(viol('probability', '%s: the multi-index prefix %s has probability zero (marginal %.3e of a total of %.3e) but the sampler offers it with probability %.6e '
                              '(allowed: %.3e, unsert=%g)' % (fn, list(mi[:j + 1]), float(W[mi[:j + 1]].sum()), tot, offered[s], allowed, u)))
                break
            continue
        # every single conditional of the chain (a rare prefix has a tiny path probability, but its conditionals are O(1))
        bad_step = None
        for j in range(1, len(mi)):
            cj = sg.cond[s, j]
            wp = float(W[mi[:j]].sum())
            wj = float(W[mi[:j + 1]].sum())
            if not np.isfinite(cj) or wp <= 0:
                continue
            tc = wj / wp
            if cj == 0.0 and tc > 1e-250 and sc['tkind'] in ('rareslice', 'normal', 'pos'):
                # tensors of these kinds have no cancellation: a weight that is tiny but not zero is computed to full relative
                # accuracy, an index with a non-zero (squared) entry can never be given the conditional probability zero
                V.append(viol('probability', '%s: after the prefix %s the index %d of mode %d has conditional probability exactly 0 but the tensor defines %.6e'
                              % (fn, list(mi[:j]), mi[j], j, tc)))
                bad_step = None
                break
            kap = max(float(Wabs[mi[:j]].sum()) / wp, float(Wabs[mi[:j + 1]].sum()) / max(wj, 1e-300))
            # absolute rounding of the representation the sampler works with: relative to the prefix weight for `sample`, relative to the
            # prefix amplitude (square root of its weight) for the squared sampler, which carries amplitudes
            amp = (Wabs_tot / wp) if fn == 'sample' else float(np.sqrt(Wabs_tot / wp))
            if abs(cj - tc) > 1e-12 + 1e-9 * tc + 1e4 * 2.2e-16 * kap * max(tc, 1e-300) + 1e4 * 2.2e-16 * float(Wabs[mi[:j + 1]].sum()) / wp \
                    + 1e3 * 2.2e-16 * amp:
                bad_step = (j, cj, tc)
                break
        if V:
            break
        if bad_step is not None:
            V.append(viol('probability', '%s: after the prefix %s the index %d of mode %d is drawn with conditional probability %.12e but the tensor defines %.12e '
                          '(prefix weight %.3e of a total of %.3e)' % (fn, list(mi[:bad_step[0]]), mi[bad_step[0]], bad_step[0], bad_step[1], bad_step[2],
                                                                    float(W[mi[:bad_step[0]]].sum()), tot)))
            break
        truth = (max(w0[mi[0]] + u, 0.0) / den0) * (float(W[mi]) / float(w0[mi[0]])) if fn == 'sample' else float(W[mi]) / tot
        err = abs(prob[s] - truth)
        worst = max(worst, err)
        # every marginal along the path (and the normaliser) is a sum with cancellation: relative rounding eps * sum|terms| / |sum|
        kappa = Wabs_tot / tot
        for j in range(len(mi)):
            wj = float(W[mi[:j + 1]].sum())
            if wj > 0:
                kappa = max(kappa, float(Wabs[mi[:j + 1]].sum()) / wj)
        if err > 1e-12 + 1e-9 * truth + 1e3 * 2.2e-16 * kappa * truth \
                + 1e3 * 2.2e-16 * float(Wabs[mi]) / tot * max(1.0, tot / den0 if fn == 'sample' and den0 > 0 else 1.0):
            V.append(viol('probability', '%s: multi-index %s is drawn with probability %.12e (product of the conditionals) but the tensor defines %.12e '
                          '(entry %.6e of a total of %.6e, shape %s, ranks %s, unsert=%g)'
                          % (fn, list(mi), prob[s], truth, float(W[mi]), tot, n, [G.shape[2] for G in Y[:-1]], u)))
            break
    key = 'steer_sample_paths' if fn == 'sample' else 'steer_square_paths'
    stats['probe.' + key] = N
    if nz:
        stats['probe.zero_probability_paths'] = nz
    stats['fault.steered_draw'] = len(sg.log)
    return fin(sc, V, stats, 1, 1 if N >= 4 else 0, [res.tobytes() if isinstance(res, np.ndarray) else None, prob.tobytes()],
               extra={'paths': N, 'worst_abs_dev': worst, 'zero_paths': nz})


# ------------------------------------------------------------------ adversarial schedules and the other clauses

def check_index_array(name, I, m, n, V, dtype_int=True):
    I = np.asarray(I)
    if I.shape != (m, len(n)):
        V.append(viol('shape', '%s returned shape %s, expected (%d, %d)' % (name, I.shape, m, len(n))))
        return False
    if dtype_int and I.dtype.kind not in 'iu':
        V.append(viol('shape', '%s returned dtype %s, expected integers' % (name, I.dtype)))
        return False
    if (I < 0).any() or (I >= np.array(n)).any():
        V.append(viol('bounds', '%s returned an index outside the tensor bounds: min %s max %s shape %s' % (name, I.min(axis=0).tolist(), I.max(axis=0).tolist(), n)))
        return False
    return True


def make_seed(sc, stats):
    use = sc.get('use', 'simgen')
    if use == 'int':
        return sc['pseed'] % (1 << 31), None
    if use == 'generator':
        stats['probe.generator_object_real'] = 1
        return gen(sc['pseed']), None
    sg = SimGen(adversarial_policy(sc['policy'], sc['pseed']))
    return sg, sg


def execute_adversarial(sc):
    V = []
    stats = {'probe.adversarial_runs': 1}
    if sc.get('highdim'):
        stats['probe.highdim_runs'] = 1
    fn = sc['fn']
    n = sc['n']
    m = sc['m']
    # the shape argument as the docstrings allow it: list or ndarray, int or float entries; m as int or float
    nt = sc.get('ntype', 'list')
    n_arg = {'list': list(n), 'array': np.array(n), 'farray': np.array(n, dtype=float), 'flist': [float(k) for k in n],
             'mixed': [float(k) if i % 2 else int(k) for i, k in enumerate(n)]}[nt]
    m_arg = float(m) if sc.get('mfloat') else m
    seed, sg = make_seed(sc, stats)
    h = []
    runs = 1
    if (sc['pseed'] >> 3) % 2 == 0:
        # fault: whatever uninitialised memory the samplers allocate holds an adversarial pattern (indices far outside the tensor)
        poison_heap(0x5A)
        stats['fault.uninitialised_memory_poisoned'] = 1
    try:
        if fn == 'sample':
            Y = build_tensor(sc)
            # tensors with exact zeros: the default noise floor `unsert` (absolute 1e-10) lets a draw enter a zero slice with
            # probability n_0*unsert/sum, after which no conditional distribution exists; that is the documented parameter's
            # doing, not part of the statement, so these tensors are sampled with unsert=0
            kw_s = {'unsert': 0.0} if sc['tkind'] in ('sqdiff', 'zeros', 'delta') else {}
            I = teneva.sample(Y, m_arg, seed=seed, **kw_s)
            check_index_array('sample', I, m, n, V)
            h.append(np.asarray(I).tobytes())
        elif fn == 'sample_square':
            Y = build_tensor(sc)
            I = teneva.sample_square(Y, m, unique=False, seed=seed)
            check_index_array('sample_square', I, m, n, V)
            h.append(np.asarray(I).tobytes())
        elif fn == 'sample_square_unique':
            Y = build_tensor(sc)
            if sc.get('highdim'):
                m2 = m
            else:
                T = tt_full(Y)
                m2 = min(m, max(1, int(np.count_nonzero(T)) // 3))
            if sg is not None and sc['policy'] != 'prng':
                # heavy repeats in the first attempt(s), proper draws afterwards: forces the doubling / restart path
                inner = adversarial_policy(sc['policy'], sc['pseed'])
                fair = adversarial_policy('prng', sc['pseed'] + 1)
                st = {'vec': 0}

                def pol(req):
                    if req['method'] == 'choice' and req['k'] > 1:
                        st['vec'] += 1
                    return (inner if st['vec'] <= 1 else fair)(req)
                sg = seed = SimGen(pol)
            I = teneva.sample_square(Y, m2, unique=True, seed=seed)
            if check_index_array('sample_square(unique)', I, m2, n, V):
                if len({tuple(r) for r in np.asarray(I).tolist()}) != m2:
                    V.append(viol('unique', 'sample_square(unique=True) returned repeated rows: %s' % np.asarray(I).tolist()[:6]))
            if sg is not None and sum(1 for e in sg.log if e[0] == 'choice' and e[2] is not None and np.prod(e[2]) > 1) > 1:
                stats['probe.unique_restart_path'] = 1
            h.append(np.asarray(I).tobytes())
        elif fn == 'unique_full_support':
            # exactly as many distinct rows as the tensor has non-zero entries: possible, must be delivered (flat tensor, small support)
            nn = [k for k in n[:3]]
            while int(np.prod(nn)) > 8:
                nn[int(np.argmax(nn))] -= 1
            Y = make_tt(nn, 1, sc['tseed'], dist='pos')
            Y = [0.5 + 0.5 * G for G in Y]
            Y[0][0, 0, 0] = 0.0 if nn[0] > 1 else Y[0][0, 0, 0]
            support = int(np.count_nonzero(tt_full(Y)))
            sg = seed = SimGen(adversarial_policy('prng', sc['pseed']), cap=60000)
            I = teneva.sample_square(Y, support, unique=True, seed=seed)
            if check_index_array('sample_square(unique, m = support size)', I, support, nn, V):
                if len({tuple(r) for r in np.asarray(I).tolist()}) != support:
                    V.append(viol('unique', 'sample_square(unique=True, m=%d) on a tensor with %d non-zero entries returned repeated rows' % (support, support)))
            stats['probe.unique_full_support'] = 1
        elif fn == 'unique_impossible':
            # fewer non-zero entries than requested samples: must be rejected, not answered with repeats
            Y = [np.zeros((1, k, 1)) for k in n]
            for G in Y:
                G[0, 0, 0] = 1.0
            try:
                I = teneva.sample_square(Y, 2, unique=True, seed=seed, m_fact=2, max_rep=1)
                V.append(viol('unique', 'sample_square(unique=True, m=2) on a tensor with one non-zero entry returned %s instead of raising ValueError'
                              % np.asarray(I).tolist()))
            except ValueError:
                stats['probe.unique_impossible_rejected'] = 1
        elif fn == 'sample_lhs':
            I = teneva.sample_lhs(n_arg, m_arg, seed=seed)
            if check_index_array('sample_lhs', I, m, n, V):
                for k, nk in enumerate(n):
                    cnt = np.bincount(np.asarray(I)[:, k], minlength=nk)
                    lo, hi = m // nk, -(-m // nk)
                    if cnt.min() < lo or cnt.max() > hi:
                        V.append(viol('lhs', 'sample_lhs(n=%s, m=%d): mode %d uses its indices %s times, expected %d or %d each' % (n, m, k, cnt.tolist(), lo, hi)))
                        break
                stats['probe.lhs_checked'] = 1
            h.append(np.asarray(I).tobytes())
        elif fn == 'sample_rand':
            I = teneva.sample_rand(n_arg, m_arg, seed=seed)
            check_index_array('sample_rand', I, m, n, V)
            h.append(np.asarray(I).tobytes())
        elif fn == 'sample_rand_poi':
            g = gen(sc['tseed'])
            a = g.uniform(-5, 5, len(n))
            b = a + g.uniform(0.1, 3, len(n))
            X = np.asarray(teneva.sample_rand_poi(list(a), list(b), m_arg, seed=seed))
            if X.shape != (m, len(n)):
                V.append(viol('shape', 'sample_rand_poi returned shape %s, expected (%d, %d)' % (X.shape, m, len(n))))
            elif (X < a).any() or (X > b).any():
                V.append(viol('bounds', 'sample_rand_poi returned a point outside [a, b]'))
            h.append(X.tobytes())
        elif fn == 'sample_tt':
            r = sc['rtt']
            I, idx, idx_many = teneva.sample_tt(n_arg, r, seed=seed)
            check_sample_tt(n, r, I, idx, idx_many, V)
            stats['probe.sample_tt_checked'] = 1
            h.append(np.asarray(I).tobytes())
        elif fn == 'sample_func':
            nn = max(2, min(4, n[0]))
            A = make_tt([nn] * len(n), min(sc['r'], 2), sc['tseed'], dist='normal')
            x = np.asarray(teneva.sample_func(A, seed=seed))
            stats['probe.sample_func_runs'] = 1
            # (the continuous sampler is not part of the statement: shape and finiteness only; its polynomial root finder returns
            # points up to ~1e-8 outside [-1, 1] for extreme draws)
            if x.shape != (len(n),) or not np.all(np.isfinite(x)):
                V.append(viol('shape', 'sample_func returned %s (expected a finite point with %d coordinates)' % (x.tolist(), len(n))))
            h.append(x.tobytes())
    except SimAbort as e:
        V.append(viol('liveness', '%s: %s' % (fn, e)))
    except AssertionError as e:
        if fn == 'sample_func':
            # documented limitation of the root finder (assert len(roots) == 1) on extreme draws: not part of the statement
            stats['probe.sample_func_root_assert'] = 1
        else:
            V.append(viol('exception', '%s raised AssertionError %s' % (fn, e)))
    except RuntimeError as e:
        if str(e).startswith('harness:'):
            raise
        V.append(viol('exception', '%s raised %s: %s' % (fn, type(e).__name__, str(e)[:300])))
    except Exception as e:
        V.append(viol('exception', '%s (m=%d, n=%s, schedule %s) raised %s: %s' % (fn, m, n, sc['policy'], type(e).__name__, str(e)[:300])))
    if sg is not None:
        for b in sg.bad:
            V.append(viol('invalid-p', '%s offered a malformed distribution: %s' % (fn, b)))
            break
        stats['fault.adversarial_draw'] = len(sg.log)
        if fn == 'sample_lhs' and any(e[0] == 'choice' and e[3] for e in sg.log if e[1] is not None and e[2] is not None and np.prod(e[2]) > 0):
            pass
    return fin(sc, V, stats, runs, 1 if (sg is None or sg.log) else 0, h)


def check_sample_tt(n, r, I, idx, idx_many, V):
    I = np.asarray(I)
    d = len(n)
    if I.ndim != 2 or I.shape[1] != d or I.dtype.kind not in 'iu':
        V.append(viol('shape', 'sample_tt returned I of shape %s dtype %s' % (I.shape, I.dtype)))
        return
    if (I < 0).any() or (I >= np.array(n)).any():
        V.append(viol('bounds', 'sample_tt returned an index outside the bounds'))
        return
    idx = np.asarray(idx)
    idx_many = np.asarray(idx_many)
    if idx.shape != (d + 1,) or idx_many.shape != (d,) or idx[0] != 0 or idx[-1] != len(I):
        V.append(viol('layout', 'sample_tt: idx=%s idx_many=%s for %d rows, d=%d' % (idx.tolist(), idx_many.tolist(), len(I), d)))
        return
    for k in range(d):
        blk = I[idx[k]:idx[k + 1]]
        len2 = int(idx_many[k])
        if len2 < 1 or len(blk) % (n[k] * len2) != 0:
            V.append(viol('layout', 'sample_tt: block %d has %d rows, not a multiple of n_k*len2 = %d*%d' % (k, len(blk), n[k], len2)))
            return
        len1 = len(blk) // (n[k] * len2)
        if (k == 0 and len1 != 1) or (k == d - 1 and len2 != 1) or (0 < k and len1 != r) or (k < d - 1 and len2 != r):
            V.append(viol('layout', 'sample_tt: block %d has %d prefixes x %d suffixes for r=%d' % (k, len1, len2, r)))
            return
        B = blk.reshape(n[k], len1, len2, d)
        # column k runs slowest, prefixes next, suffixes fastest
        if not (B[:, :, :, k] == np.arange(n[k])[:, None, None]).all():
            V.append(viol('layout', 'sample_tt: in block %d column %d does not run slowest' % (k, k)))
            return
        if k > 0 and not (B[:, :, :, :k] == B[0:1, :, 0:1, :k]).all():
            V.append(viol('layout', 'sample_tt: block %d prefixes are not constant over the suffix / mode loops' % k))
            return
        if k < d - 1 and not (B[:, :, :, k + 1:] == B[0:1, 0:1, :, k + 1:]).all():
            V.append(viol('layout', 'sample_tt: block %d suffixes are not constant over the prefix / mode loops' % k))
            return


# ------------------------------------------------------------------ chi-square fallback with a real generator

def execute_chi2(sc):
    from scipy.stats import chi2
    V = []
    stats = {'probe.chi2_runs': 1}
    Y = build_tensor(sc)
    T = tt_full(Y)
    fn = sc['fn']
    W = T if fn == 'sample' else T * T
    pr = (W / W.sum()).reshape(-1)
    N = sc['N']
    seed = sc['pseed'] % (1 << 31) if sc['use'] == 'int' else gen(sc['pseed'])
    if sc['use'] != 'int':
        stats['probe.generator_object_real'] = 1
    try:
        if fn == 'sample':
            I = teneva.sample(Y, N, seed=seed, unsert=0.0)
        else:
            I = teneva.sample_square(Y, N, unique=False, seed=seed)
    except Exception as e:
        return fin(sc, [viol('exception', '%s raised %s: %s' % (fn, type(e).__name__, str(e)[:300]))], stats, 1, 0, [])
    if check_index_array(fn, I, N, sc['n'], V):
        flat = np.ravel_multi_index(tuple(np.asarray(I).T), sc['n'])
        cnt = np.bincount(flat, minlength=len(pr)).astype(float)
        exp = N * pr
        big = exp >= 5
        if (cnt[pr == 0] > 0).any():
            V.append(viol('probability', '%s drew a multi-index whose entry is exactly zero' % fn))
        elif big.sum() >= 2:
            # pool the small cells
            c = np.append(cnt[big], cnt[~big].sum())
            e = np.append(exp[big], exp[~big].sum())
            if e[-1] < 5:
                c, e = c[:-1], e[:-1]
                e = e * c.sum() / e.sum() if e.sum() > 0 else e
            stat = float(((c - e) ** 2 / e).sum())
            pval = float(chi2.sf(stat, len(c) - 1))
            if pval < 1e-12:
                V.append(viol('probability', '%s: %d draws with a real PCG64 generator do not follow entry/sum: chi2=%.1f with %d dof, p=%.3e'
                              % (fn, N, stat, len(c) - 1, pval)))
    return fin(sc, V, stats, 1, 1, [np.asarray(I).tobytes()])


def fin(sc, V, stats, runs, nontrivial, h, extra=None):
    sample = {k: sc[k] for k in ('mode', 'n', 'r', 'tkind', 'fn', 'policy', 'm', 'unsert', 'use') if k in sc}
    if extra:
        sample.update(extra)
    return {'violations': V, 'runs': runs, 'stats': stats, 'digest': dig(h, [v['oracle'] for v in V]),
            'nontrivial': nontrivial, 'sim_time': 0.0, 'sample': sample}


def execute(sc):
    sc = copy.deepcopy(sc)
    if sc['mode'].startswith('steer'):
        return execute_steer(sc)
    if sc['mode'] == 'adversarial':
        return execute_adversarial(sc)
    return execute_chi2(sc)


def shrink(sc, v):
    def cp():
        return copy.deepcopy(sc)
    if len(sc['n']) > 2:
        s = cp(); s['n'] = sc['n'][:-1]; yield s
        s = cp(); s['n'] = sc['n'][1:]; yield s
    for k in range(len(sc['n'])):
        if sc['n'][k] > 1 and sum(1 for x in sc['n'] if x > 1) + (0 if sc['n'][k] > 2 else -1) >= 1:
            s = cp(); s['n'][k] -= 1; yield s
    if sc['r'] > 1:
        s = cp(); s['r'] -= 1; yield s
    if sc.get('m', 1) > 1:
        s = cp(); s['m'] = sc['m'] // 2; yield s
        s = cp(); s['m'] = sc['m'] - 1; yield s
    if sc.get('unsert'):
        s = cp(); s['unsert'] = 0.0; yield s
    if sc.get('tkind') not in ('pos', 'normal'):
        s = cp(); s['tkind'] = 'pos' if sc['mode'] == 'steer_sample' or sc.get('fn') == 'sample' else 'normal'; yield s
    if sc.get('policy') not in (None, 'min'):
        s = cp(); s['policy'] = 'min'; yield s
