"""Argument contexts for the catalogue."""
import numpy as np

from sim.world import make_tt


class FreshCtx:
    """Everything is generated from the context's own Generator (one integer decides the call)."""

    def __init__(self, argseed, n, seed_mode='int', monitor=None):
        self.rng = np.random.Generator(np.random.PCG64(int(argseed)))
        self.n = list(n)
        self.seed_mode = seed_mode
        self._monitor = monitor
        self.seed_value = None

    def tt(self, r=None, writable=False):
        r = r or int(self.rng.integers(1, 4))
        Y = make_tt(self.n, r, int(self.rng.integers(1 << 30)), dist='uniform')
        if self.rng.random() < 0.04:
            Y[int(self.rng.integers(0, len(Y)))] *= 0.0        # the exactly-zero tensor is a valid argument too
        return Y

    def tt_shape(self, n, r):
        return make_tt(list(n), r, int(self.rng.integers(1 << 30)), dist='uniform')

    def idx(self, m):
        return np.stack([self.rng.integers(0, k, m) for k in self.n], axis=1)

    def ind(self):
        return np.array([int(self.rng.integers(0, k)) for k in self.n])

    SPECIAL_SEEDS = [0, 0, 1, 2 ** 32 - 1, 2 ** 63 - 1, 2 ** 64 + 5]

    def draw_seed(self):
        # "all integer seeds": mostly ordinary ones, now and then a boundary value (0 is falsy!)
        if self.rng.random() < 0.15:
            return self.SPECIAL_SEEDS[int(self.rng.integers(0, len(self.SPECIAL_SEEDS)))]
        return int(self.rng.integers(0, 1 << 31))

    def seed(self):
        s = self.draw_seed()
        if self.seed_mode == 'generator':
            self.seed_value = np.random.Generator(np.random.PCG64(s))
        else:
            self.seed_value = s
        return self.seed_value

    def own(self, obj, shallow=False):
        return obj

    def monitor(self, tag):
        if self._monitor is not None:
            self._monitor(tag)
