"""One table describing how to call every exported callable of teneva with documented
argument combinations. Shared by alias_sim (C09) and history_sim (C10).

Every builder takes a context `c` and returns a Call. The context supplies arguments:
  c.rng                 numpy Generator (scenario-derived, never the global one)
  c.n                   the scenario's tensor shape (list of mode sizes, d = len)
  c.tt(r=None)          a TT-tensor of shape c.n (alias_sim may hand out a pool object)
  c.tt_shape(n, r)      a fresh TT-tensor of another shape
  c.idx(m), c.ind()     index batch / single multi-index inside c.n
  c.seed()              a value for a `seed` argument (int, Generator object, ...)
  c.monitor(tag)        to be called from inside every callback handed to the library
  c.own(obj)            registers a freshly built argument object with the caller (pool)
Undocumented / experimental keywords are deliberately absent (DESIGN 3.4)."""
import numpy as np

from sim import boot

teneva = boot.boot()


class Call:
    def __init__(self, name, fn, args, kwargs=None, mutable=(), passthrough=False, seed_kw=None,
                 post=None, may_fail=False, defaults_dict=None, note=None, reset=None, check=None):
        self.name = name
        self.fn = fn
        self.args = list(args)
        self.kwargs = dict(kwargs or {})
        self.mutable = set(mutable)        # positions / keyword names the function may modify (documented)
        self.passthrough = passthrough     # the result may be / alias an argument (documented)
        self.seed_kw = seed_kw
        self.post = post                   # result -> digestable value (e.g. evaluate a returned closure)
        self.may_fail = may_fail           # known not to run on the pinned tree for reasons unrelated to C09/C10
        self.defaults_dict = defaults_dict # name of an optional dict argument left at its default (C10)
        self.note = note
        self.reset = reset                 # puts stateful callbacks back to their initial state (for a repeated call)
        self.check = check                 # result -> None or a description of what is wrong (absolute oracle, e.g. a twin comparison)

    def run(self):
        res = self.fn(*self.args, **self.kwargs)
        return res


ENTRIES = {}


def entry(name=None, needs=None, weight=1):
    def deco(f):
        nm = name or f.__name__[2:]
        ENTRIES[nm] = {'build': f, 'needs': needs or (), 'weight': weight}
        return f
    return deco


# ------------------------------------------------------------------ helpers

def _canon(v):
    # representation of a value that does not depend on numpy's print options
    if isinstance(v, np.ndarray):
        return 'array:%s:%s:%s' % (v.dtype, v.shape, v.tobytes().hex())
    if isinstance(v, (float, np.floating)):
        return 'float:' + float(v).hex()
    if isinstance(v, (bool, np.bool_, int, np.integer, str)) or v is None:
        return '%s:%s' % (type(v).__name__.replace('bool_', 'bool'), v if not isinstance(v, np.integer) else int(v))
    return 'obj:' + type(v).__name__


def _nlist(c):
    # the shape argument as a list or as an int64 ndarray ("list, np.ndarray")
    return c.own(np.array(c.n)) if c.rng.random() < 0.4 else c.own(list(c.n))


def _ranks(c):
    return int(c.rng.integers(1, 4))


def _pick(c, seq):
    return seq[int(c.rng.integers(0, len(seq)))]


def _table(c, n=None):
    n = list(n or c.n)
    Y = c.tt_shape(n, 2)
    T = Y[0].reshape(-1, Y[0].shape[2])
    for G in Y[1:]:
        T = (T @ G.reshape(G.shape[0], -1)).reshape(-1, G.shape[2])
    return T.reshape(n)


def _vec(c, k, pos=False):
    v = c.rng.uniform(0.1, 1.0, k) if pos else c.rng.standard_normal(k)
    return c.own(v)


# ------------------------------------------------------------------ act_one / act_two / act_many

@entry()
def e_copy(c):
    kind = _pick(c, ['tt', 'tt', 'array', 'number', 'number', 'none', '0d'])
    if kind == 'tt':
        return Call('copy', teneva.copy, [c.tt()])
    if kind == '0d':
        return Call('copy', teneva.copy, [np.array(float(c.rng.standard_normal()))])       # a zero-dimensional array is an array
    if kind == 'array':
        return Call('copy', teneva.copy, [c.own(c.rng.standard_normal((3, 2)))])
    if kind == 'number':
        return Call('copy', teneva.copy, [_pick(c, [1.5, 3])], passthrough=True)
    return Call('copy', teneva.copy, [None], passthrough=True)


@entry()
def e_get(c):
    i = c.ind()
    kind = _pick(c, ['list', 'array', 'batch'])
    if kind == 'list':
        i = c.own([int(x) for x in i])
    elif kind == 'batch':
        i = c.idx(3)
    return Call('get', teneva.get, [c.tt(), i])


@entry()
def e_get_and_grad(c):
    return Call('get_and_grad', teneva.get_and_grad, [c.tt(), c.ind()])


@entry()
def e_get_many(c):
    I = c.idx(int(c.rng.integers(1, 6)))
    if c.rng.random() < 0.3:
        I = c.own(I.tolist())
    elif c.rng.random() < 0.3:
        I = c.own(np.asarray(I, dtype=np.int32))
    elif c.rng.random() < 0.2:
        # a batch of batches [a, b, d] (works on the pinned tree, the result has shape [a, b])
        I = c.own(np.stack([c.idx(2), c.idx(2), c.idx(2)]))
        return Call('get_many', teneva.get_many, [c.tt(), I], may_fail=True)
    return Call('get_many', teneva.get_many, [c.tt(), I])


@entry()
def e_getter(c):
    return Call('getter', teneva.getter, [c.tt()], {'compile': bool(c.rng.integers(0, 2))}, may_fail=True,
                post=lambda g: [g(np.zeros(len(c.n), dtype=int))])


@entry()
def e_interface(c):
    kw = {'norm': _pick(c, ['linalg', 'natural', None]), 'ltr': bool(c.rng.integers(0, 2))}
    pk = _pick(c, ['none', 'none', 'vec', 'list'])
    if pk == 'vec' and len(set(c.n)) == 1:
        kw['P'] = _vec(c, c.n[0], pos=True)
    elif pk == 'list':
        kw['P'] = c.own([c.rng.uniform(0.1, 1.0, k) for k in c.n])
    if c.rng.random() < 0.5:
        kw['i'] = c.ind() if c.rng.random() < 0.6 else c.own([int(x) for x in c.ind()])
    if c.rng.random() < 0.3:
        # a call that is rejected in the middle of its sweep (index outside the tensor, weight row too short): the arguments stay as they were
        if c.rng.random() < 0.7:
            kw['ltr'] = True
        if c.rng.random() < 0.5:
            bad = [int(x) for x in c.ind()]
            bad[int(c.rng.integers(0, len(bad)))] = max(c.n) + 3
            kw['i'] = c.own(bad) if c.rng.random() < 0.5 else c.own(np.array(bad))
        else:
            kw['P'] = c.own([c.rng.uniform(0.1, 1.0, k if j != len(c.n) // 2 else max(1, k - 1)) for j, k in enumerate(c.n)])
        return Call('interface', teneva.interface, [c.tt()], kw, may_fail=True)
    return Call('interface', teneva.interface, [c.tt()], kw)


@entry()
def e_mean(c):
    kw = {}
    if c.rng.random() < 0.5:
        u = c.rng.random()
        if u < 0.5:
            kw['P'] = c.own([c.rng.uniform(0.1, 1.0, k) for k in c.n])
        elif u < 0.8:
            kw['P'] = c.own([c.rng.uniform(0.1, 1.0, max(c.n) + 1) for k in c.n])       # rows longer than the mode (only the head is used)
        else:
            kw['P'] = c.own(c.rng.uniform(0.1, 1.0, (len(c.n), max(c.n))))              # one rectangular table
    if c.rng.random() < 0.5:
        kw['norm'] = bool(c.rng.integers(0, 2))
    return Call('mean', teneva.mean, [c.tt()], kw)


@entry()
def e_norm(c):
    return Call('norm', teneva.norm, [c.tt()], {'use_stab': bool(c.rng.integers(0, 2))})


@entry()
def e_sum(c):
    return Call('sum', teneva.sum, [c.tt()])


@entry()
def e_qtt_to_tt(c):
    q = int(c.rng.integers(1, 3))
    d = int(c.rng.integers(2, 4))
    Y = c.own(c.tt_shape([2] * (q * d), _ranks(c)))
    return Call('qtt_to_tt', teneva.qtt_to_tt, [Y, q])


@entry()
def e_tt_to_qtt(c):
    d = int(c.rng.integers(2, 4))
    Y = c.tt_shape([_pick(c, [2, 4])] * d, _ranks(c))
    if c.rng.random() < 0.15:
        Y[int(c.rng.integers(0, d))] *= float(_pick(c, [1e150, 1e-150, 1e101, 1e-101]))      # magnitudes far from one
    Y = c.own(Y)
    kw = {}
    if c.rng.random() < 0.5:
        kw = {'e': 1e-8, 'r': int(c.rng.integers(1, 5))}
    return Call('tt_to_qtt', teneva.tt_to_qtt, [Y], kw)


@entry()
def e_accuracy(c):
    if c.rng.random() < 0.25:
        A = c.own(c.rng.standard_normal((3, 4)))
        B = c.own(c.rng.standard_normal((3, 4)))
        return Call('accuracy', teneva.accuracy, [A, B])
    if c.rng.random() < 0.2:
        Y = c.tt()
        return Call('accuracy', teneva.accuracy, [Y, Y])          # the same object as both arguments
    return Call('accuracy', teneva.accuracy, [c.tt(), c.tt()])


def _binary(name):
    def build(c):
        fn = getattr(teneva, name)
        k = _pick(c, ['tt_tt', 'tt_tt', 'tt_num', 'num_tt', 'num_num', 'same'])
        if k == 'tt_tt':
            return Call(name, fn, [c.tt(), c.tt()])
        if k == 'same':
            Y = c.tt()
            return Call(name, fn, [Y, Y])
        if k == 'tt_num':
            return Call(name, fn, [c.tt(), _pick(c, [float(c.rng.standard_normal()), 2, -1, 0, 0.0, 1.0])])
        if k == 'num_tt':
            return Call(name, fn, [_pick(c, [float(c.rng.standard_normal()), 3, -2, 0, 0.0, 1]), c.tt()])
        return Call(name, fn, [2.0, 3], passthrough=True)
    return build


for _nm in ('add', 'mul', 'sub'):
    ENTRIES[_nm] = {'build': _binary(_nm), 'needs': (), 'weight': 2}


@entry()
def e_mul_scalar(c):
    Y1 = c.tt()
    Y2 = Y1 if c.rng.random() < 0.25 else c.tt()
    return Call('mul_scalar', teneva.mul_scalar, [Y1, Y2], {'use_stab': bool(c.rng.integers(0, 2))})


@entry()
def e_outer(c):
    Y1 = c.tt()
    Y2 = Y1 if c.rng.random() < 0.25 else c.tt()
    if c.rng.random() < 0.05:
        return Call('outer', teneva.outer, [c.own([]), Y2], may_fail=True)         # the empty product as the left factor
    return Call('outer', teneva.outer, [Y1, Y2])


@entry()
def e_add_many(c):
    k = int(c.rng.integers(1, 5))
    items = [c.tt() for _ in range(k)]
    if c.rng.random() < 0.25:
        items.append(items[0])                       # the same tensor object twice in the list
    if c.rng.random() < 0.2:
        items = items + [c.tt() for _ in range(int(c.rng.integers(12, 20)))]      # long sums (periodic rounding inside)
    if c.rng.random() < 0.35:
        # "some of them may be int/float"
        for _ in range(int(c.rng.integers(1, 3))):
            items.insert(int(c.rng.integers(1, len(items) + 1)), _pick(c, [2.5, -1, 0.5, 3]))
    lst = c.own(items, shallow=True)
    kw = {}
    if c.rng.random() < 0.6:
        kw = {'e': 1e-8, 'r': int(c.rng.integers(1, 6)), 'trunc_freq': int(c.rng.integers(1, 4))}
    return Call('add_many', teneva.add_many, [lst], kw)


@entry()
def e_outer_many(c):
    k = int(c.rng.integers(0, 4))
    lst = c.own([c.tt() for _ in range(k)], shallow=True)
    return Call('outer_many', teneva.outer_many, [lst], passthrough=(k == 0))


# ------------------------------------------------------------------ props / vis

for _nm in ('erank', 'ranks', 'shape', 'size', 'show'):
    def _mk(nm):
        def build(c):
            return Call(nm, getattr(teneva, nm), [c.tt()])
        return build
    ENTRIES[_nm] = {'build': _mk(_nm), 'needs': (), 'weight': 1}


# ------------------------------------------------------------------ transformation

@entry()
def e_full(c):
    return Call('full', teneva.full, [c.tt()])


@entry()
def e_full_matrix(c):
    q = int(c.rng.integers(1, 4))
    Y = c.own(c.tt_shape([4] * q, _ranks(c))) if q > 1 else c.own(c.tt_shape([4, 4], 2))
    return Call('full_matrix', teneva.full_matrix, [Y], {'order': _pick(c, ['F', 'C'])} if c.rng.random() < 0.5 else {})


@entry(weight=3)
def e_orthogonalize(c):
    kw = {}
    if c.rng.random() < 0.7:
        kw['k'] = int(c.rng.integers(0, len(c.n)))
    if c.rng.random() < 0.5:
        kw['use_stab'] = bool(c.rng.integers(0, 2))
    return Call('orthogonalize', teneva.orthogonalize, [c.tt()], kw)


@entry(weight=2)
def e_orthogonalize_left(c):
    inplace = bool(c.rng.random() < 0.4)
    Y = c.tt(writable=inplace)
    return Call('orthogonalize_left', teneva.orthogonalize_left, [Y, int(c.rng.integers(0, len(c.n) - 1))],
                {'inplace': inplace} if inplace or c.rng.random() < 0.5 else {},
                mutable=({0} if inplace else ()), passthrough=inplace)


@entry(weight=2)
def e_orthogonalize_right(c):
    inplace = bool(c.rng.random() < 0.4)
    Y = c.tt(writable=inplace)
    return Call('orthogonalize_right', teneva.orthogonalize_right, [Y, int(c.rng.integers(1, len(c.n)))],
                {'inplace': inplace} if inplace or c.rng.random() < 0.5 else {},
                mutable=({0} if inplace else ()), passthrough=inplace)


@entry(weight=3)
def e_truncate(c):
    kw = {}
    if c.rng.random() < 0.8:
        kw['e'] = float(_pick(c, [1e-12, 1e-6, 0.1, 0.5]))
    if c.rng.random() < 0.5:
        kw['r'] = int(c.rng.integers(1, 5))
    for k in ('orth', 'use_stab', 'is_eigh'):
        if c.rng.random() < 0.4:
            kw[k] = bool(c.rng.integers(0, 2))
    if kw.get('use_stab') and kw.get('orth') is False:
        kw.pop('use_stab')
    if c.rng.random() < 0.06:
        Y = c.own(c.tt_shape([int(c.rng.integers(16, 20))] * 3, int(c.rng.integers(16, 20))))     # unfoldings of ~300 x ~300
        return Call('truncate', teneva.truncate, [Y], {'e': 1e-6, 'r': int(c.rng.integers(2, 20)), 'is_eigh': bool(c.rng.integers(0, 2))})
    return Call('truncate', teneva.truncate, [c.tt()], kw)


# ------------------------------------------------------------------ tensors

@entry()
def e_const(c):
    kw = {'v': float(_pick(c, [1.0, -2.5, 0.0, 1e-3]))}
    if c.rng.random() < 0.5:
        rows = [[int(x) for x in c.ind()] for _ in range(int(c.rng.integers(1, 3)))]
        i_nz = None
        if c.rng.random() < 0.5:
            cand = [int(x) for x in c.ind()]
            # keep the request satisfiable: differ from every zero index in at least one position
            if all(any(a != b for a, b in zip(z, cand)) for z in rows):
                i_nz = cand
            elif c.rng.random() < 0.5:
                i_nz = cand            # a request that cannot be satisfied (rejected today): a rejected call must leave its arguments alone as well
        if i_nz is None and c.rng.random() < 0.1:
            i_nz = list(rows[int(c.rng.integers(0, len(rows)))])
        if c.rng.random() < 0.4:
            # numpy-style indices counted from the end, passed as int64 arrays
            k = int(c.rng.integers(0, len(c.n)))
            rows = [[x - c.n[j] if (j == k and c.n[j] > 1) else x for j, x in enumerate(z)] for z in rows]
            kw['I_zero'] = c.own(np.array(rows, dtype=int))
            if i_nz is not None:
                kw['i_non_zero'] = c.own(np.array([x - c.n[j] if j != k else x for j, x in enumerate(i_nz)], dtype=int))
        else:
            kw['I_zero'] = c.own(rows)
            if i_nz is not None:
                kw['i_non_zero'] = c.own(i_nz)
    return Call('const', teneva.const, [_nlist(c)], kw, may_fail=True)


@entry()
def e_delta(c):
    i = c.ind()
    if c.rng.random() < 0.4:
        i = c.own([int(x) for x in i])
    elif c.rng.random() < 0.3:
        i = c.own(np.array([int(x) - c.n[j] for j, x in enumerate(i)], dtype=int))      # counted from the end
    return Call('delta', teneva.delta, [_nlist(c), i], {'v': float(c.rng.standard_normal())})


@entry()
def e_poly(c):
    kw = {}
    if c.rng.random() < 0.6:
        kw['shift'] = _pick(c, [0.5, c.own(c.rng.standard_normal(len(c.n)))])
    if c.rng.random() < 0.5:
        kw['power'] = int(c.rng.integers(1, 4))
        kw['scale'] = 2.0
    return Call('poly', teneva.poly, [_nlist(c)], kw)


def _nshape(c):
    # now and then a larger tensor than the scenario's shape (sizes matter for buffer-size dependent paths)
    if c.rng.random() < 0.25:
        return [int(c.rng.integers(4, 11)) for _ in range(int(c.rng.integers(2, 6)))]
    return list(c.n)


def _rshape(c, d=None):
    if c.rng.random() < 0.5:
        return _ranks(c) + (int(c.rng.integers(0, 4)) if d is not None and d != len(c.n) else 0)
    d = d or len(c.n)
    return c.own([1] + [int(c.rng.integers(1, 4)) for _ in range(d - 1)] + [1])


@entry(weight=2)
def e_rand(c):
    kw = {'seed': c.seed()}
    if c.rng.random() < 0.5:
        kw.update(a=-2.0, b=3.0)
    nn = _nshape(c)
    n = c.own(np.array(nn)) if c.rng.random() < 0.5 else c.own(list(nn))
    return Call('rand', teneva.rand, [n, _rshape(c, len(nn))], kw, seed_kw='seed')


@entry()
def e_rand_custom(c):
    gseed = int(c.rng.integers(1 << 30))
    box = [np.random.Generator(np.random.PCG64(gseed))]

    def f(size):
        c.monitor('rand_custom.f')
        return box[0].standard_normal(size)

    def reset():
        box[0] = np.random.Generator(np.random.PCG64(gseed))
    return Call('rand_custom', teneva.rand_custom, [_nlist(c), _rshape(c), f], reset=reset)


@entry(weight=2)
def e_rand_norm(c):
    kw = {'seed': c.seed()}
    if c.rng.random() < 0.5:
        kw.update(m=1.0, s=0.5)
    nn = _nshape(c)
    return Call('rand_norm', teneva.rand_norm, [c.own(nn), _rshape(c, len(nn))], kw, seed_kw='seed')


@entry(weight=2)
def e_rand_stab(c):
    kw = {'seed': c.seed()}
    if c.rng.random() < 0.5:
        kw['noise'] = 1e-3
    nn = _nshape(c)
    return Call('rand_stab', teneva.rand_stab, [c.own(nn), _rshape(c, len(nn))], kw, seed_kw='seed')


# ------------------------------------------------------------------ core

def _core(c):
    return c.own(c.rng.standard_normal((int(c.rng.integers(1, 4)), int(c.rng.integers(1, 5)), int(c.rng.integers(1, 4)))))


@entry()
def e_core_dot(c):
    G = _core(c)
    ltr = bool(c.rng.integers(0, 2))
    k = G.shape[2] if ltr else G.shape[0]
    R = 2.0 if (c.rng.random() < 0.2 and k == 1) else (c.own(c.rng.standard_normal((k, int(c.rng.integers(1, 4)))))
                                                    if ltr else c.own(c.rng.standard_normal((int(c.rng.integers(1, 4)), k))))
    return Call('core_dot', teneva.core_dot, [G, R], {'ltr': ltr})


@entry()
def e_core_dot_inv(c):
    G = _core(c)
    ltr = bool(c.rng.integers(0, 2))
    k = G.shape[2] if ltr else G.shape[0]
    R = c.rng.standard_normal((k, k)) + 3 * np.eye(k)
    if c.rng.random() < 0.15:
        R[int(c.rng.integers(0, k))] = 0.0                   # exactly singular: the call raises; it must still leave R alone
    R = c.own(R)
    return Call('core_dot_inv', teneva.core_dot_inv, [G, R], {'ltr': ltr}, may_fail=True)


@entry()
def e_core_dot_maxvol(c):
    G = _core(c)
    ltr = bool(c.rng.integers(0, 2))
    k = G.shape[2] if ltr else G.shape[0]
    R = c.own(c.rng.standard_normal((k, k)) + 2 * np.eye(k))
    kw = {'ltr': ltr}      # `ind` is undocumented ("TODO: Add docs") and handed back as is: not exercised
    return Call('core_dot_maxvol', teneva.core_dot_maxvol, [G, R], kw)


@entry()
def e_core_qr_rand(c):
    ltr = bool(c.rng.integers(0, 2))
    if c.rng.random() < 0.25:
        # a core whose unfolding is already orthonormal (as orthogonalize / truncate produce), no extra columns requested
        r1, n, r2 = int(c.rng.integers(1, 3)), int(c.rng.integers(2, 5)), int(c.rng.integers(1, 3))
        if ltr:
            Q = np.linalg.qr(c.rng.standard_normal((r1 * n, r2)))[0]
            G = np.reshape(Q, (r1, n, r2), order='F')
        else:
            Q = np.linalg.qr(c.rng.standard_normal((n * r2, r1)))[0].T
            G = np.reshape(Q, (r1, n, r2), order='F')
        return Call('core_qr_rand', teneva.core_qr_rand, [c.own(np.array(G)), 0], {'ltr': ltr, 'seed': c.seed()}, seed_kw='seed')
    return Call('core_qr_rand', teneva.core_qr_rand, [_core(c), int(c.rng.integers(0, 3))],
                {'ltr': ltr, 'seed': c.seed()}, seed_kw='seed')


@entry()
def e_core_qtt_to_tt(c):
    q = int(c.rng.integers(1, 4))
    Y = c.tt_shape([2] * q, 2)
    Y[0] = c.rng.standard_normal((2, 2, Y[0].shape[2]))
    Y[-1] = c.rng.standard_normal((Y[-1].shape[0], 2, 3))
    return Call('core_qtt_to_tt', teneva.core_qtt_to_tt, [c.own(Y)])


@entry()
def e_core_stab(c):
    G = c.rng.standard_normal((int(c.rng.integers(1, 4)), int(c.rng.integers(1, 5)), int(c.rng.integers(1, 4))))
    kind = _pick(c, ['normal', 'tiny', 'zero'])
    if kind == 'tiny':
        G *= 1e-150
    elif kind == 'zero':
        G *= 0.0
    G = c.own(G)
    kw = {}
    if c.rng.random() < 0.5:
        kw = {'p0': int(c.rng.integers(-3, 4)), 'thr': 1e-100}
    # documented pass-through only below the threshold: an ordinary core must come back as a new array
    return Call('core_stab', teneva.core_stab, [G], kw, passthrough=(kind != 'normal'))


@entry()
def e_core_tt_to_qtt(c):
    G = c.rng.standard_normal((int(c.rng.integers(1, 3)), _pick(c, [2, 4, 8]), int(c.rng.integers(1, 3))))
    if c.rng.random() < 0.15:
        G = G * float(_pick(c, [1e150, 1e-150, 1e101, 1e-101]))
    G = c.own(G)
    kw = {} if c.rng.random() < 0.5 else {'e': 1e-8, 'r': 3}
    return Call('core_tt_to_qtt', teneva.core_tt_to_qtt, [G], kw)


# ------------------------------------------------------------------ svd / maxvol

def _mat(c, m=None, n=None):
    m = m or int(c.rng.integers(1, 7))
    n = n or int(c.rng.integers(1, 7))
    return c.own(c.rng.standard_normal((m, n)))


def _bigmat(c):
    # a large matrix of low numerical rank plus noise (size-dependent code paths)
    m, n = int(c.rng.integers(256, 330)), int(c.rng.integers(256, 330))
    k = int(c.rng.integers(2, 12))
    A = c.rng.standard_normal((m, k)) @ c.rng.standard_normal((k, n)) + 1e-3 * c.rng.standard_normal((m, n))
    return c.own(A)


@entry()
def e_matrix_skeleton(c):
    kw = {}
    if c.rng.random() < 0.7:
        kw = {'e': float(_pick(c, [1e-10, 0.1])), 'r': int(c.rng.integers(1, 5)), 'rel': bool(c.rng.integers(0, 2)),
              'give_to': _pick(c, ['m', 'l', 'r'])}
    if c.rng.random() < 0.12:
        return Call('matrix_skeleton', teneva.matrix_skeleton, [_bigmat(c)], {'e': 1e-6, 'r': int(c.rng.integers(2, 30)), 'give_to': _pick(c, ['m', 'l', 'r'])})
    A = _mat(c)
    if c.rng.random() < 0.2:
        k = A.shape[0]
        B = c.rng.standard_normal((k, k))
        A = c.own(B + B.T)
        kw['hermitian'] = True
    return Call('matrix_skeleton', teneva.matrix_skeleton, [A], kw)


@entry()
def e_matrix_svd(c):
    kw = {} if c.rng.random() < 0.4 else {'e': float(_pick(c, [1e-10, 0.1])), 'r': int(c.rng.integers(1, 5))}
    if c.rng.random() < 0.1:
        return Call('matrix_svd', teneva.matrix_svd, [_bigmat(c)], {'e': 1e-6, 'r': int(c.rng.integers(2, 30))})
    return Call('matrix_svd', teneva.matrix_svd, [_mat(c)], kw)


@entry()
def e_svd(c):
    kw = {} if c.rng.random() < 0.4 else {'e': float(_pick(c, [1e-10, 0.1])), 'r': int(c.rng.integers(1, 5))}
    if c.rng.random() < 0.1:
        return Call('svd', teneva.svd, [_bigmat(c)], {'e': 1e-6, 'r': int(c.rng.integers(2, 30))})
    return Call('svd', teneva.svd, [c.own(c.rng.standard_normal(c.n))], kw)


@entry()
def e_svd_matrix(c):
    q = int(c.rng.integers(1, 4))
    kw = {} if c.rng.random() < 0.4 else {'e': 1e-8, 'r': int(c.rng.integers(1, 5))}
    return Call('svd_matrix', teneva.svd_matrix, [c.own(c.rng.standard_normal((2 ** q, 2 ** q)))], kw, may_fail=(q == 1))


@entry()
def e_svd_incomplete(c):
    n = [4, 4, 4]
    I, idx, idx_many = teneva.sample_tt(n, 2, seed=int(c.rng.integers(1 << 30)))
    T = _table(c, n)
    y = T[tuple(I.T)]
    return Call('svd_incomplete', teneva.svd_incomplete, [c.own(I), c.own(y), c.own(idx), c.own(idx_many)],
                {'e': 1e-10, 'r': 3}, may_fail=True)


@entry()
def e_maxvol(c):
    r = int(c.rng.integers(1, 4))
    if c.rng.random() < 0.25:
        # the coefficient matrix of an earlier, converged maxvol run (its dominant rows are unit vectors) is looked at again
        A0 = c.rng.standard_normal((r + int(c.rng.integers(1, 6)), r))
        try:
            A = c.own(np.array(teneva.maxvol(A0, 1.0, 1000)[1]))
        except Exception:
            A = c.own(A0)
    else:
        A = _mat(c, r + int(c.rng.integers(1, 6)), r)
    kw = {} if c.rng.random() < 0.4 else {'e': float(_pick(c, [1.01, 1.05, 2.0])), 'k': int(_pick(c, [1, 5, 100]))}
    return Call('maxvol', teneva.maxvol, [A], kw)


@entry()
def e_maxvol_rect(c):
    r = int(c.rng.integers(1, 4))
    n = r + int(c.rng.integers(1, 6))
    A = _mat(c, n, r)
    kw = {}
    if c.rng.random() < 0.7:
        dmin = int(c.rng.integers(0, n - r + 1))
        kw = {'e': 1.1, 'dr_min': dmin, 'dr_max': dmin + int(c.rng.integers(0, 3)), 'e0': 1.05, 'k0': 10}
        if dmin + r > n:
            kw['dr_min'] = 0
    return Call('maxvol_rect', teneva.maxvol_rect, [A], kw)


# ------------------------------------------------------------------ grid / stat / vectors / matrices

@entry()
def e_grid_flat(c):
    return Call('grid_flat', teneva.grid_flat, [_pick(c, [c.own(list(c.n)), c.own(np.array(c.n)), 5])])


@entry()
def e_grid_prep_opt(c):
    d = len(c.n)
    opt = _pick(c, [None, 2, 1.5, c.own([1.0] * d), c.own(np.arange(d, dtype=float)), c.own(np.arange(d))])
    kw = {'d': d}
    if c.rng.random() < 0.5:
        kw['kind'] = _pick(c, [float, int])
    if c.rng.random() < 0.3:
        kw['reps'] = int(c.rng.integers(1, 4))
    # handing the argument back is documented; a repeated (reps) result is a new array and must not alias it
    return Call('grid_prep_opt', teneva.grid_prep_opt, [opt], kw, passthrough=('reps' not in kw))


@entry()
def e_grid_prep_opts(c):
    d = len(c.n)
    a = _pick(c, [None, -1.0, c.own([-1.0] * d), c.own(-np.ones(d))])
    b = _pick(c, [None, 2.0, c.own([2.0] * d), c.own(2 * np.ones(d))])
    n = _pick(c, [None, 5, c.own(list(c.n)), c.own(np.array(c.n))])
    kw = {'d': d}
    if c.rng.random() < 0.3:
        kw['reps'] = 2
    return Call('grid_prep_opts', teneva.grid_prep_opts, [a, b, n], kw, passthrough=('reps' not in kw))


@entry()
def e_ind_qtt_to_tt(c):
    q = int(c.rng.integers(1, 4))
    d = int(c.rng.integers(1, 4))
    I = c.rng.integers(0, 2, (int(c.rng.integers(1, 5)), q * d))
    I = c.own(I[0] if c.rng.random() < 0.3 else I)
    return Call('ind_qtt_to_tt', teneva.ind_qtt_to_tt, [I, q])


@entry()
def e_ind_tt_to_qtt(c):
    q = int(c.rng.integers(1, 4))
    d = int(c.rng.integers(1, 4))
    I = c.rng.integers(0, 2 ** q, (int(c.rng.integers(1, 5)), d))
    I = c.own(I[0] if c.rng.random() < 0.3 else I)
    return Call('ind_tt_to_qtt', teneva.ind_tt_to_qtt, [I, 2 ** q])


def _box(c, d):
    k = _pick(c, ['scalar', 'list', 'array', 'unit', 'sym'])
    if k == 'scalar':
        return -1.5, 2.0
    if k == 'unit':
        return _pick(c, [(0.0, 1.0), (c.own(np.zeros(d)), c.own(np.ones(d)))])        # exactly the unit box
    if k == 'sym':
        return _pick(c, [(-1.0, 1.0), (c.own(-np.ones(d)), c.own(np.ones(d)))])       # exactly [-1, 1]
    a = -1.0 - c.rng.random(d)
    b = 1.0 + c.rng.random(d)
    if k == 'list':
        return c.own(a.tolist()), c.own(b.tolist())
    return c.own(a), c.own(b)


@entry()
def e_ind_to_poi(c):
    d = len(c.n)
    a, b = _box(c, d)
    nn = [k + 1 for k in c.n]
    I = np.stack([c.rng.integers(0, k, 4) for k in nn], axis=1)
    if c.rng.random() < 0.3:
        I = I.astype(float) + (0.5 if c.rng.random() < 0.5 else 0.0)       # float-typed (possibly fractional) indices
    I = c.own(I)
    if c.rng.random() < 0.3:
        I = c.own(I[0].copy())
    return Call('ind_to_poi', teneva.ind_to_poi, [I, a, b, _pick(c, [c.own(nn), c.own(np.array(nn)), max(nn), float(max(nn))])],
                {'kind': _pick(c, ['uni', 'cheb'])})


@entry()
def e_poi_scale(c):
    d = len(c.n)
    a, b = _box(c, d)
    X = c.own(c.rng.uniform(-3, 3, (4, d)))
    if c.rng.random() < 0.3:
        X = c.own(X[0].copy())
    return Call('poi_scale', teneva.poi_scale, [X, a, b], {'kind': _pick(c, ['uni', 'cheb', c.own([0.0, 5.0])])})


@entry()
def e_poi_to_ind(c):
    d = len(c.n)
    a, b = _box(c, d)
    nn = [k + 1 for k in c.n]
    X = c.own(c.rng.uniform(-3, 3, (4, d)))
    if c.rng.random() < 0.3:
        X = c.own(X[0].copy())
    return Call('poi_to_ind', teneva.poi_to_ind, [X, a, b, _pick(c, [c.own(nn), c.own(np.array(nn)), 6])], {'kind': _pick(c, ['uni', 'cheb'])})


@entry()
def e_cdf_confidence(c):
    x = c.own(np.sort(c.rng.random(8)))
    return Call('cdf_confidence', teneva.cdf_confidence, [x], {} if c.rng.random() < 0.5 else {'alpha': 0.1})


@entry()
def e_cdf_getter(c):
    u = c.rng.random()
    x = c.own(c.rng.standard_normal(7)) if u < 0.4 else (c.own(np.sort(c.rng.standard_normal(7))) if u < 0.8 else c.own(c.rng.standard_normal(7).tolist()))
    z = c.rng.standard_normal(5)
    return Call('cdf_getter', teneva.cdf_getter, [x], post=lambda f: [f(z), f(0.0)])


@entry()
def e_matrix_delta(c):
    q = int(c.rng.integers(1, 4))
    return Call('matrix_delta', teneva.matrix_delta, [q, int(c.rng.integers(-1, 2 ** q)), int(c.rng.integers(0, 2 ** q))],
                {'v': 2.5}, may_fail=True)


@entry()
def e_vector_delta(c):
    q = int(c.rng.integers(1, 4))
    return Call('vector_delta', teneva.vector_delta, [q, int(c.rng.integers(-1, 2 ** q))], {'v': -1.5}, may_fail=True)


# ------------------------------------------------------------------ data

@entry()
def e_accuracy_on_data(c):
    I = c.idx(6)
    if c.rng.random() < 0.3:
        I = c.own(I.tolist())
    y = c.rng.standard_normal(6) + 2
    if y[0] > 3.0:
        y[1] = np.nan       # a missing reference value (about one call in six; decided by the values, no extra draw)
    y = c.own(y)
    kw = {} if c.rng.random() < 0.6 else {'e_trunc': 1e-3}
    if c.rng.random() < 0.2:
        return Call('accuracy_on_data', teneva.accuracy_on_data, [c.tt(), None, None])
    return Call('accuracy_on_data', teneva.accuracy_on_data, [c.tt(), I, y], kw)


@entry()
def e_cache_to_data(c):
    if c.rng.random() < 0.3:
        return Call('cache_to_data', teneva.cache_to_data, [], defaults_dict='cache')
    vals = {tuple(int(x) for x in c.ind()): float(c.rng.standard_normal()) for _ in range(5)}
    if c.rng.random() < 0.3:
        # an objective that failed at some indices left non-finite values behind
        for k_ in list(vals)[:int(c.rng.integers(1, 3))]:
            vals[k_] = float(_pick(c, [np.nan, np.inf, -np.inf]))
    cache = c.own(vals)
    return Call('cache_to_data', teneva.cache_to_data, [cache])


# ------------------------------------------------------------------ func (TT) and func_full (dense)

def _eqshape(c, allow_one=False):
    nn = int(c.rng.integers(2, 5))
    if allow_one and c.rng.random() < 0.15:
        nn = 1          # a single basis function per mode (degenerate but accepted)
    d = int(c.rng.integers(2, 4))
    return [nn] * d


@entry()
def e_func_basis(c):
    X = c.own(c.rng.uniform(-1, 1, (int(c.rng.integers(1, 5)), int(c.rng.integers(1, 4)))))
    kw = {'m': int(c.rng.integers(1, 6))}
    if c.rng.random() < 0.3:
        kw['kind'] = 'cheb'
    return Call('func_basis', teneva.func_basis, [X], kw)


@entry()
def e_func_diff_matrix(c):
    kw = {'m': int(c.rng.integers(1, 4)), 'kind': _pick(c, ['cheb', 'sin'])}
    a, b = _pick(c, [(-1.0, 2.0), (-1.0, 2.0), (-1.0, 1.0), (0.0, 1.0)])
    return Call('func_diff_matrix', teneva.func_diff_matrix, [a, b, int(c.rng.integers(3, 7))], kw, may_fail=True)


@entry()
def e_func_diff_matrix_apply(c):
    n = _eqshape(c)
    A = c.own(c.tt_shape(n, 2))
    D = c.own(np.diag(np.arange(1.0, n[0] + 1)))
    return Call('func_diff_matrix_apply', teneva.func_diff_matrix_apply, [A, D], {'kind': _pick(c, ['sin', 'sin', 'cheb'])}, may_fail=True)


@entry(weight=2)
def e_func_get(c):
    n = _eqshape(c)
    d = len(n)
    A = c.own(c.tt_shape(n, 2))
    X = c.own(c.rng.uniform(-1.2, 1.2, (4, d)))
    if c.rng.random() < 0.25:
        X = c.own(X[0].copy())
    kw = {}
    k = _pick(c, ['default', 'box', 'funcs'])
    if k == 'box':
        a, b = _box(c, d)
        kw = {'a': a, 'b': b, 'z': -7.0}
        if c.rng.random() < 0.5:
            kw['skip_out'] = bool(c.rng.integers(0, 2))
    elif k == 'funcs':
        def mk():
            def fb(x):
                c.monitor('func_get.funcs')
                return np.stack([np.asarray(x, dtype=float) ** j for j in range(n[0])])
            return fb
        kw = {'funcs': mk() if c.rng.random() < 0.5 else [mk() for _ in range(d)]}
        if c.rng.random() < 0.4:
            # own basis functions together with a box: points outside of it (X reaches 1.2) are skipped
            a, b = _box(c, d)
            kw.update(a=a, b=b, z=-7.0)
    return Call('func_get', teneva.func_get, [X, A], kw, may_fail=bool(kw.get('funcs')) and 'a' in kw)


@entry()
def e_func_gets(c):
    n = _eqshape(c, allow_one=True)
    A = c.own(c.tt_shape(n, 2))
    kw = {}
    if c.rng.random() < 0.5:
        kw['m'] = _pick(c, [int(n[0] + 1), c.own([n[0] + 1] * len(n)), c.own(np.array([n[0] + 1] * len(n)))])
    if c.rng.random() < 0.3:
        kw['kind'] = 'sin'
    return Call('func_gets', teneva.func_gets, [A], kw)


@entry()
def e_func_int(c):
    n = _eqshape(c)
    Y = c.own(c.tt_shape(n, 2))
    return Call('func_int', teneva.func_int, [Y], {} if c.rng.random() < 0.6 else {'kind': 'sin'})


@entry()
def e_func_int_general(c):
    n = _eqshape(c)
    Y = c.own(c.tt_shape(n, 2))
    X = c.own(np.linspace(-1, 1, n[0]))

    def basis(x):
        c.monitor('func_int_general.basis_func')
        return np.stack([np.asarray(x, dtype=float) ** j for j in range(n[0])])
    return Call('func_int_general', teneva.func_int_general, [Y, X, basis], may_fail=True)


@entry()
def e_func_sum(c):
    n = _eqshape(c, allow_one=True)
    A = c.own(c.tt_shape(n, 2))
    a, b = _box(c, len(n))
    return Call('func_sum', teneva.func_sum, [A, a, b], {} if c.rng.random() < 0.6 else {'kind': 'sin'})


def _dense_eq(c):
    nn = int(c.rng.integers(2, 5))
    d = int(c.rng.integers(1, 4))
    return c.own(c.rng.standard_normal([nn] * d)), nn, d


@entry()
def e_func_get_full(c):
    A, nn, d = _dense_eq(c)
    X = c.own(c.rng.uniform(-1.2, 1.2, (4, d)))
    a, b = _box(c, d)
    kw = {} if c.rng.random() < 0.5 else {'z': 3.0, 'skip_out': bool(c.rng.integers(0, 2))}
    return Call('func_get_full', teneva.func_get_full, [X, A, a, b], kw)


@entry()
def e_func_gets_full(c):
    A, nn, d = _dense_eq(c)
    kw = {} if c.rng.random() < 0.5 else {'m': _pick(c, [nn + 1, c.own([nn + 1] * d), c.own(np.array([nn + 1] * d))])}
    a, b = _pick(c, [(-1.0, 1.0), (c.own([-1.0] * d), c.own([1.0] * d)), (c.own(-np.ones(d)), c.own(np.ones(d)))])
    return Call('func_gets_full', teneva.func_gets_full, [A, a, b], kw)


@entry()
def e_func_int_full(c):
    A, nn, d = _dense_eq(c)
    return Call('func_int_full', teneva.func_int_full, [A], may_fail=(nn < 3))


@entry()
def e_func_sum_full(c):
    A, nn, d = _dense_eq(c)
    if c.rng.random() < 0.25:
        return Call('func_sum_full', teneva.func_sum_full, [A, -1.0, 2.0], may_fail=True)
    if c.rng.random() < 0.2:
        # bounds that are symmetric only up to round-off
        return Call('func_sum_full', teneva.func_sum_full, [A, _pick(c, [-(0.1 + 0.2), c.own(-(0.1 + 0.2) * np.ones(d)), c.own([-(0.1 + 0.2)] * d)]),
                                                            _pick(c, [0.3, c.own(0.3 * np.ones(d)), c.own([0.3] * d)])], may_fail=True)
    return Call('func_sum_full', teneva.func_sum_full, [A, _pick(c, [-2.0, c.own([-2.0] * d), c.own(-2.0 * np.ones(d))]), _pick(c, [2.0, c.own([2.0] * d), c.own(2.0 * np.ones(d))])])


# ------------------------------------------------------------------ optima

@entry()
def e_optima_tt(c):
    return Call('optima_tt', teneva.optima_tt, [c.tt()], {} if c.rng.random() < 0.4 else {'k': int(c.rng.integers(1, 20))})


@entry()
def e_optima_tt_max(c):
    return Call('optima_tt_max', teneva.optima_tt_max, [c.tt()], {} if c.rng.random() < 0.4 else {'k': int(c.rng.integers(1, 20))})


@entry(weight=2)
def e_optima_tt_beam(c):
    kw = {'k': int(c.rng.integers(1, 20))}
    if c.rng.random() < 0.6:
        kw['l2r'] = bool(c.rng.integers(0, 2))
    if c.rng.random() < 0.5:
        kw['ret_all'] = bool(c.rng.integers(0, 2))
    return Call('optima_tt_beam', teneva.optima_tt_beam, [c.tt()], kw)


@entry()
def e_optima_tt_maxvol(c):
    kw = {'k': int(c.rng.integers(1, 6)), 'how': _pick(c, ['smart', 'l2r', 'r2l', 'both'])}
    if c.rng.random() < 0.3:
        kw['use'] = 'mv'
    return Call('optima_tt_maxvol', teneva.optima_tt_maxvol, [c.tt()], kw, may_fail=True)


@entry()
def e_optima_qtt(c):
    d = int(c.rng.integers(2, 4))
    Y = c.own(c.tt_shape([_pick(c, [2, 4])] * d, 2))
    return Call('optima_qtt', teneva.optima_qtt, [Y], {} if c.rng.random() < 0.5 else {'k': 10, 'e': 1e-10, 'r': 50})


@entry()
def e_optima_func_tt_beam(c):
    n = _eqshape(c)
    A = c.own(c.tt_shape(n, 2))
    kw = {'k': int(c.rng.integers(1, 6))}
    if c.rng.random() < 0.5:
        kw['k_loc'] = int(c.rng.integers(1, 4))
    if c.rng.random() < 0.5:
        kw['ret_all'] = bool(c.rng.integers(0, 2))
    return Call('optima_func_tt_beam', teneva.optima_func_tt_beam, [A], kw, may_fail=True)


# ------------------------------------------------------------------ samplers

def _pos_tt(c):
    return c.own([np.abs(G) + 0.1 for G in c.tt_shape(c.n, int(c.rng.integers(1, 4)))])


@entry(weight=2)
def e_sample(c):
    kw = {'seed': c.seed()}
    if c.rng.random() < 0.4:
        kw['unsert'] = 1e-8
    Y = [np.abs(G) + 0.1 for G in c.tt_shape(c.n, int(c.rng.integers(1, 4)))]
    if c.rng.random() < 0.15 and Y[0].shape[1] > 1:
        # a first-mode slice that vanishes exactly, with a noise floor large enough for a draw to land in it (no conditional
        # distribution exists then: the call is rejected on the pinned tree, always for the same seeds)
        Y[0][:, int(c.rng.integers(0, Y[0].shape[1])), :] = 0.0
        kw['unsert'] = float(_pick(c, [0.05, 0.5]))
        return Call('sample', teneva.sample, [c.own(Y), int(c.rng.integers(3, 9))], kw, seed_kw='seed', may_fail=True)
    return Call('sample', teneva.sample, [c.own(Y), int(c.rng.integers(1, 6))], kw, seed_kw='seed')


@entry(weight=2)
def e_sample_square(c):
    kw = {'seed': c.seed(), 'unique': bool(c.rng.integers(0, 2))}
    m = int(c.rng.integers(1, 4))
    if kw['unique']:
        # keep the restart loop short: m well below the number of entries, few restarts allowed
        m = min(m, max(1, int(np.prod(c.n)) // 3))
        kw.update(m_fact=int(_pick(c, [3, 5])), max_rep=2)
    elif c.rng.random() < 0.2:
        kw['float_cf'] = int(_pick(c, [2, 4]))         # "special parameter": positions on a finer grid, returned as floats (works for integral values given as int)
    return Call('sample_square', teneva.sample_square, [c.tt(), m], kw, seed_kw='seed', may_fail=True)


@entry(weight=2)
def e_sample_lhs(c):
    n = _pick(c, [c.own(list(c.n)), c.own(np.array(c.n))])
    return Call('sample_lhs', teneva.sample_lhs, [n, int(c.rng.integers(1, 9))], {'seed': c.seed()}, seed_kw='seed')


@entry(weight=2)
def e_sample_rand(c):
    n = _pick(c, [c.own(list(c.n)), c.own(np.array(c.n))])
    return Call('sample_rand', teneva.sample_rand, [n, int(c.rng.integers(1, 9))], {'seed': c.seed()}, seed_kw='seed')


@entry(weight=2)
def e_sample_rand_poi(c):
    d = len(c.n)
    av = -1.0 - c.rng.random(d)
    bv = 1.0 + c.rng.random(d)
    rejected = c.rng.random() < 0.1
    if rejected:
        j = int(c.rng.integers(0, d))
        av[j], bv[j] = bv[j], av[j]         # limits in the wrong order in one dimension: rejected, the arguments stay as they are
    a = c.own(av.tolist()) if c.rng.random() < 0.7 else c.own(av)
    b = c.own(bv)
    return Call('sample_rand_poi', teneva.sample_rand_poi, [a, b, int(c.rng.integers(1, 9))], {'seed': c.seed()}, seed_kw='seed', may_fail=rejected)


@entry(weight=2)
def e_sample_tt(c):
    return Call('sample_tt', teneva.sample_tt, [_nlist(c)], {'r': int(c.rng.integers(1, 4)), 'seed': c.seed()}, seed_kw='seed')


@entry(weight=2)
def e_sample_func(c):
    n = _eqshape(c)
    A = c.tt_shape(n, 2)
    if c.rng.random() < 0.3:
        # cores prepared by the caller as the function itself would prepare them ("inner usage" flag, documented)
        P = [G.copy() for G in A]
        for G in P:
            G[:, 0, :] *= np.sqrt(2.)
        for k in range(len(P) - 1, 0, -1):
            r1, nk, r2 = P[k].shape
            Q, R = np.linalg.qr(P[k].reshape(r1, nk * r2).T)
            P[k] = Q.T.reshape(-1, nk, r2)
            P[k - 1] = np.einsum('aib,bc->aic', P[k - 1], R.T)
        return Call('sample_func', teneva.sample_func, [c.own(P)], {'seed': c.seed(), 'cores_are_prepared': True}, seed_kw='seed', may_fail=True)
    A = c.own(A)
    return Call('sample_func', teneva.sample_func, [A], {'seed': c.seed()}, seed_kw='seed', may_fail=True)


# ------------------------------------------------------------------ anova

def _trn(c, m=None):
    m = m or int(c.rng.integers(4, 25))
    I = np.stack([c.rng.integers(0, k, m) for k in c.n], axis=1)
    cover = np.array([[min(j, k - 1) for k in c.n] for j in range(max(c.n))])
    I = np.vstack([I, cover])
    y = c.rng.standard_normal(len(I))
    if c.rng.random() < 0.1:
        y[int(c.rng.integers(0, len(y)))] = _pick(c, [np.nan, np.inf, -np.inf])      # real data sets contain such entries
    return c.own(I), c.own(y)


@entry(weight=2)
def e_anova(c):
    I, y = _trn(c)
    kw = {'seed': c.seed()}
    if c.rng.random() < 0.7:
        kw.update(r=int(c.rng.integers(2, 4)), order=int(c.rng.integers(1, 3)), noise=float(_pick(c, [1e-10, 1e-2])))
    return Call('anova', teneva.anova, [I, y], kw, seed_kw='seed')


@entry(name='anova_from_file')
def e_anova_from_file(c):
    import os
    import tempfile
    I, y = _trn(c)
    order = int(c.rng.integers(1, 3))
    r = int(c.rng.integers(2, 4))
    noise = float(_pick(c, [1e-10, 1e-2]))
    owner_seed = int(c.rng.integers(1 << 30))
    use_owner = bool(c.rng.integers(0, 2))
    seed = c.seed()
    box = {}

    def fn():
        # a model is built and saved by some earlier owner (with its own seed, possibly after it drew from its generator),
        # then cores are produced from the file with the caller's seed; the direct-data twin must give the same cores
        d = tempfile.mkdtemp(prefix='verif-anova-', dir='/dev/shm' if os.path.isdir('/dev/shm') else None)
        path = os.path.join(d, 'model.pickle')
        try:
            owner = teneva.ANOVA(I, y, order, seed=owner_seed)
            if use_owner:
                owner.cores(r)
            owner.save(path)
            restored = teneva.ANOVA(fpath=path, order=order, seed=owner_seed)
            pts = np.array([[0] * len(c.n)])
            box['restored'] = [restored(pts), restored(pts), restored(pts[0]), owner(pts), owner(pts[0])]
            return teneva.anova(None, None, r, order, noise, seed=seed, fpath=path)
        finally:
            try:
                os.remove(path)
            except OSError:
                pass
            os.rmdir(d)

    def check(res):
        import copy as _copy
        rr = box.get('restored')
        if rr is not None:
            if np.asarray(rr[0]).tobytes() != np.asarray(rr[1]).tobytes():
                return 'evaluating an ANOVA object restored from a file twice at the same multi-index gives two different results'
            if np.asarray(rr[0]).tobytes() != np.asarray(rr[3]).tobytes() or np.asarray(rr[2], dtype=float).tobytes() != np.asarray(rr[4], dtype=float).tobytes():
                return 'an ANOVA object restored from a file evaluates differently from the object that was saved'
        if not isinstance(seed, int):
            return None
        ref = teneva.anova(I, y, r, order, noise, seed=seed)
        if len(ref) != len(res) or any(a.shape != b.shape or a.tobytes() != b.tobytes() for a, b in zip(ref, res)):
            return 'anova(fpath=<saved model>, seed=s) differs from anova(I_trn, y_trn, seed=s) for the same data and seed'
        return None
    return Call('anova_from_file', fn, [], {}, seed_kw=None, check=check)


@entry()
def e_ANOVA(c):
    I, y = _trn(c)
    order = int(c.rng.integers(1, 3))
    r = int(c.rng.integers(2, 4))
    pts = c.idx(3)

    def post(obj):
        return [obj.cores(r=r), obj(pts), obj(pts[0]), obj.sample(), obj.sample(with_square=True)]

    def check(obj):
        a, b = obj(pts), obj(pts)
        if np.asarray(a).tobytes() != np.asarray(b).tobytes():
            return 'evaluating an ANOVA object twice at the same multi-indices gives two different results'
        # the noise-free cores do not depend on the generator: they must be the same before and after the object has been sampled from
        fresh = teneva.ANOVA(I, y, order, seed=1).cores(r, noise=0.0)
        obj.sample()
        obj.sample()
        after = obj.cores(r, noise=0.0)
        # (values are compared, not bytes: 0 * normal() is +0.0 or -0.0 depending on the draw)
        # a sample drawn after earlier calls with other options must equal the sample a fresh object draws from the same generator state
        o1 = teneva.ANOVA(I, y, order, seed=5)
        o1.sample()
        o1.sample(eps=1e-3)
        o1.rand = np.random.default_rng(77)
        o2 = teneva.ANOVA(I, y, order, seed=77)
        if list(o1.sample(with_square=True)) != list(o2.sample(with_square=True)):
            return 'ANOVA.sample(with_square=True) after earlier sample() calls with other options differs from a fresh object with the same generator state'
        if len(fresh) != len(after) or any(p_.shape != q_.shape or not np.array_equal(p_, q_) for p_, q_ in zip(fresh, after)):
            return 'ANOVA.cores(noise=0) after two sample() calls differs from the cores of a freshly built object'
        return None
    return Call('ANOVA', teneva.ANOVA, [I, y], {'order': order, 'seed': c.seed()}, seed_kw='seed', post=post, check=check)


@entry(name='ANOVA_call')
def e_ANOVA_call(c):
    # the evaluation methods of a built ANOVA object are public as well: obj(I) / obj[i] must leave the query alone,
    # also when the query holds an index value that never occurred in the train data (rejected on the pinned tree)
    m = int(c.rng.integers(6, 25))
    I = np.stack([c.rng.integers(0, k, m) for k in c.n], axis=1)
    cover = np.array([[min(j, k - 1) for k in c.n] for j in range(max(c.n))])
    I = np.vstack([I, cover])
    k = int(c.rng.integers(0, len(c.n)))
    gap = None
    if c.n[k] > 1 and c.rng.random() < 0.6:
        gap = int(c.rng.integers(0, c.n[k]))
        I = I[I[:, k] != gap]
    y = c.rng.standard_normal(len(I))
    order = int(c.rng.integers(1, 3))
    Q = np.stack([c.rng.integers(0, kk, 4) for kk in c.n], axis=1)
    if gap is not None and c.rng.random() < 0.7:
        Q[int(c.rng.integers(0, 4)), k] = gap
    else:
        # only values that occur in the train data
        for j in range(len(c.n)):
            seen = np.unique(I[:, j])
            Q[:, j] = seen[Q[:, j] % len(seen)]
    u = c.rng.random()
    Qa = c.own(Q) if u < 0.5 else (c.own(Q.tolist()) if u < 0.75 else c.own(Q[0].copy()))

    def fn(I_, y_, Q_):
        obj = teneva.ANOVA(I_, y_, order, seed=3)
        return np.asarray(obj(Q_))
    return Call('ANOVA_call', fn, [c.own(I), c.own(y), Qa], {}, may_fail=True)


def _trn_func(c, d):
    m = int(c.rng.integers(5, 20))
    X = c.rng.uniform(-1, 1, (m, d))
    y = c.rng.standard_normal(m)
    return c.own(X), c.own(y)


@entry()
def e_anova_func(c):
    d = len(c.n)
    X, y = _trn_func(c, d)
    kw = {} if c.rng.random() < 0.4 else {'a': -1.5, 'b': 1.5, 'lamb': 1e-4, 'e': _pick(c, [1e-8, None])}
    if kw and c.rng.random() < 0.5:
        kw['a'], kw['b'] = _pick(c, [(c.own([-1.5] * d), c.own([1.5] * d)), (c.own(-1.5 * np.ones(d)), c.own(1.5 * np.ones(d)))])
    return Call('anova_func', teneva.anova_func, [X, y, int(c.rng.integers(2, 5))], kw)


@entry()
def e_ANOVA_func(c):
    d = len(c.n)
    X, y = _trn_func(c, d)
    nn = int(c.rng.integers(2, 5))

    def post(o):
        return [o.cores(e=1e-1), o.cores(e=1e-10), o.cores(), o.coeffs]

    def check(o):
        # the object may be asked for cores several times, coarse first: a later request must not remember the earlier one
        o.cores(e=1e-1)
        a = o.cores(e=1e-10)
        b = teneva.ANOVA_func(X, y, nn).cores(e=1e-10)
        if len(a) != len(b) or any(p.shape != q.shape or p.tobytes() != q.tobytes() for p, q in zip(a, b)):
            return 'ANOVA_func.cores(e=1e-10) after an earlier cores(e=1e-1) on the same object differs from the same request on a fresh object'
        return None
    return Call('ANOVA_func', teneva.ANOVA_func, [X, y, nn], post=post, check=check)


# ------------------------------------------------------------------ the iterative solvers (callbacks inside)

@entry(weight=4)
def e_cross(c):
    T = _table(c)
    n = list(c.n)
    st = {'calls': 0}
    none_at = int(c.rng.integers(2, 12)) if c.rng.random() < 0.2 else None
    raise_at = int(c.rng.integers(1, 12)) if c.rng.random() < 0.1 else None

    def f(I):
        c.monitor('cross.f')
        st['calls'] += 1
        if none_at is not None and st['calls'] == none_at:
            return None
        if raise_at is not None and st['calls'] == raise_at:
            raise KeyError('objective failed at call %d' % raise_at)      # the user's function may fail: the exception propagates
        return T[tuple(np.asarray(I).T)]
    Y0 = c.tt(r=int(c.rng.integers(1, 3)))
    kw = {'nswp': int(c.rng.integers(1, 4))}
    if c.rng.random() < 0.4:
        kw['m'] = int(c.rng.integers(5, 400))
    if c.rng.random() < 0.3:
        kw['e'] = float(_pick(c, [1e-10, 1e-2, 0.9]))
    if c.rng.random() < 0.5:
        kw.update(dr_min=int(c.rng.integers(0, 2)), dr_max=int(c.rng.integers(1, 3)), tau=1.2, tau0=1.1, k0=20)
    mutable = set()
    dd = None
    if c.rng.random() < 0.6:
        kw['info'] = c.own({})
        mutable.add('info')
    else:
        dd = 'info'
    if c.rng.random() < 0.5:
        kw['cache'] = c.own({})
        mutable.add('cache')
        if c.rng.random() < 0.5:
            kw['m_cache_scale'] = int(_pick(c, [1, 5, 1000]))
        if c.rng.random() < 0.4:
            kw['nswp'] = int(c.rng.integers(6, 10))          # many sweeps: the cache serves most requests
            kw['m_cache_scale'] = 1000
    if c.rng.random() < 0.4:
        kw['I_vld'] = c.idx(5)
        kw['y_vld'] = c.own(T[tuple(kw['I_vld'].T)])
        if c.rng.random() < 0.5:
            kw['e_vld'] = float(_pick(c, [1e-12, 0.5]))
    if c.rng.random() < 0.5:
        cb_at = int(c.rng.integers(1, 4)) if c.rng.random() < 0.4 else None
        sw = {'s': 0}

        def cb(Y, info, opts):
            c.monitor('cross.cb')
            sw['s'] += 1
            sw['seen'].append(sorted((str(k), _canon(v)) for k, v in info.items() if k != 't'))      # what a watching caller reads in the progress record
            return True if cb_at == sw['s'] else None
        sw['seen'] = []
        kw['cb'] = cb
    if c.rng.random() < 0.15:
        kw['log'] = True

    def reset():
        st['calls'] = 0
        if 'cb' in kw:
            sw['s'] = 0
            del sw['seen'][:]
    post = (lambda res: [res, list(sw['seen'])]) if 'cb' in kw else None
    return Call('cross', teneva.cross, [f, Y0], kw, mutable=mutable, defaults_dict=dd, reset=reset, post=post)


@entry(weight=2)
def e_cross_act(c):
    D = int(c.rng.integers(1, 3))
    X_list = c.own([c.tt(r=2) for _ in range(D)], shallow=True)

    kept = {'n': 0}

    def f(X):
        c.monitor('cross_act.f')
        X = np.asarray(X)
        out = np.sin(X).sum(axis=1) if X.ndim == 2 else np.sin(X)
        if kept['n'] < 3 and isinstance(out, np.ndarray):
            # an objective that keeps what it returned (log, memo, reusable buffer): the array stays the caller's
            kept['n'] += 1
            return c.own(out)
        return out
    Y0 = c.tt(r=1)
    kw = {'e': float(_pick(c, [1e-6, 1e-2])), 'nswp': int(c.rng.integers(1, 3)), 'r': int(c.rng.integers(2, 5)),
          'dr': int(c.rng.integers(0, 3)), 'dr2': int(c.rng.integers(0, 2)), 'seed': c.seed()}
    if c.rng.random() < 0.1:
        kw['log'] = True
    return Call('cross_act', teneva.cross_act, [f, X_list, Y0], kw, seed_kw='seed', may_fail=True)


def _als_data(c):
    n = c.n
    m = int(c.rng.integers(3, 30))
    I = np.stack([c.rng.integers(0, k, m) for k in n], axis=1)
    cover = np.array([[min(j, k - 1) for k in n] for j in range(max(n))])
    I = np.vstack([I, cover])
    I = I[c.rng.permutation(len(I))]
    y = c.rng.standard_normal(len(I))
    if c.rng.random() < 0.05:
        y[int(c.rng.integers(0, len(y)))] = np.nan          # rejected by the solver with an exception
    return I, y


@entry(weight=4)
def e_als(c):
    I, y = _als_data(c)
    u = c.rng.random()
    I = c.own(I.tolist()) if u < 0.15 else (c.own(I.astype(np.int32)) if u < 0.3 else c.own(I))
    y = c.own(y)
    Y0 = c.tt(r=int(c.rng.integers(1, 4)))
    kw = {'nswp': int(c.rng.integers(1, 4))}
    mutable = set()
    dd = None
    if c.rng.random() < 0.4:
        kw['e'] = float(_pick(c, [1e-16, 1e-2]))
    if c.rng.random() < 0.6:
        kw['info'] = c.own({})
        mutable.add('info')
    else:
        dd = 'info'
    if c.rng.random() < 0.3:
        kw['w'] = c.own(c.rng.uniform(0.5, 2.0, len(y)))
    if c.rng.random() < 0.5:
        kw['lamb'] = _pick(c, [1e-3, 0.1, 1.0, None])
    if c.rng.random() < 0.3:
        kw['I_vld'] = c.idx(5)
        kw['y_vld'] = c.own(c.rng.standard_normal(5) + 1)
        if c.rng.random() < 0.5:
            kw['e_vld'] = float(_pick(c, [1e-12, 10.0]))
    if c.rng.random() < 0.25 and len(c.n) >= 3:
        kw['r'] = int(c.rng.integers(3, 5))
        if 'I_vld' in kw and c.rng.random() < 0.4:
            kw['allow_swap'] = True        # documented as an experimental flag; needs r and a validation set
            if c.rng.random() < 0.5:
                kw['swap_tol'] = int(_pick(c, [1, 3, 10]))
        kw.update(r_add=int(_pick(c, [1, 10000])), e_adap=1e-3)
        if c.rng.random() < 0.2:
            kw['use_stab'] = True     # raises for every input on the pinned tree (orthogonalize returns a pair); kept so that a repair is exercised
    if c.rng.random() < 0.2:
        kw['allow_skip_cores'] = True
    if 'r' not in kw and kw.get('lamb', 1.0) is not None and c.rng.random() < 0.08:
        kw['update_sol'] = True            # undocumented: the cores are corrected instead of replaced
    if c.rng.random() < 0.5:
        cb_at = int(c.rng.integers(1, 4)) if c.rng.random() < 0.4 else None
        sw = {'s': 0}

        def cb(Y, info, opts):
            c.monitor('als.cb')
            sw['s'] += 1
            sw['seen'].append(sorted((str(k), _canon(v)) for k, v in info.items() if k != 't'))      # what a watching caller reads in the progress record
            return True if cb_at == sw['s'] else None
        sw['seen'] = []
        kw['cb'] = cb
    if c.rng.random() < 0.1:
        kw['log'] = True

    def reset():
        if 'cb' in kw:
            sw['s'] = 0
            del sw['seen'][:]
    post = (lambda res: [res, list(sw['seen'])]) if 'cb' in kw else None
    return Call('als', teneva.als, [I, y, Y0], kw, mutable=mutable, defaults_dict=dd, reset=reset, post=post)


@entry(name='als_swap_default_info')
def e_als_swap(c):
    # rank-adaptive als with the experimental mode swap, progress record left at its default
    n = [int(c.rng.integers(2, 5))] * int(c.rng.integers(3, 5))
    m = int(c.rng.integers(20, 60))
    I = np.stack([c.rng.integers(0, k, m) for k in n], axis=1)
    I = np.vstack([I, np.array([[j] * len(n) for j in range(n[0])])])
    y = np.sin(I @ np.arange(1, len(n) + 1)) + 0.1 * c.rng.standard_normal(len(I))
    Iv = np.stack([c.rng.integers(0, k, 6) for k in n], axis=1)
    yv = np.sin(Iv @ np.arange(1, len(n) + 1))
    Y0 = c.tt_shape(n, 1)
    return Call('als', teneva.als, [c.own(I), c.own(y), c.own(Y0)], {'nswp': 2, 'r': int(c.rng.integers(2, 4)), 'allow_swap': True,
                                                                      'I_vld': c.own(Iv), 'y_vld': c.own(yv)}, defaults_dict='info')


@entry(name='als_vld_default_info')
def e_als_vld(c):
    # constant-rank als with a validation set and an e_vld stop, progress record left at its default
    n = [int(c.rng.integers(2, 5))] * int(c.rng.integers(3, 5))
    m = int(c.rng.integers(20, 60))
    I = np.stack([c.rng.integers(0, k, m) for k in n], axis=1)
    I = np.vstack([I, np.array([[j] * len(n) for j in range(n[0])])])
    y = np.sin(I @ np.arange(1, len(n) + 1))
    Iv = np.stack([c.rng.integers(0, k, 8) for k in n], axis=1)
    yv = np.sin(Iv @ np.arange(1, len(n) + 1))
    Y0 = c.tt_shape(n, 2)
    return Call('als', teneva.als, [c.own(I), c.own(y), c.own(Y0)], {'nswp': 4, 'I_vld': c.own(Iv), 'y_vld': c.own(yv), 'e_vld': float(_pick(c, [1e-3, 0.3]))},
                defaults_dict='info')


@entry(weight=3)
def e_als_func(c):
    n = _eqshape(c)
    d = len(n)
    m = int(c.rng.integers(6, 30))
    X = c.own(c.rng.uniform(-1, 1, (m, d)))
    y = c.own(c.rng.standard_normal(m))
    A0 = c.own(c.tt_shape(n, int(c.rng.integers(1, 3))))
    kw = {'nswp': int(c.rng.integers(1, 4))}
    mutable = set()
    dd = None
    if c.rng.random() < 0.6:
        kw['info'] = c.own({})
        mutable.add('info')
    else:
        dd = 'info'
    if c.rng.random() < 0.4:
        kw.update(a=-1.5, b=1.5)
    if c.rng.random() < 0.4:
        kw['lamb'] = _pick(c, [1e-3, 0.1, None])
    if c.rng.random() < 0.3:
        kw['e'] = float(_pick(c, [1e-16, 1e-3]))
    if c.rng.random() < 0.2:
        kw['thr_pow'] = float(_pick(c, [1e-6, 1e-3]))
    if c.rng.random() < 0.3:
        kw['X_vld'] = c.own(c.rng.uniform(-1, 1, (5, d)))
        kw['y_vld'] = c.own(c.rng.standard_normal(5) + 1)
        if c.rng.random() < 0.5:
            kw['e_vld'] = 10.0
    elif c.rng.random() < 0.25:
        kw['e_vld'] = 10.0              # a validation threshold without validation data is ignored
    if c.rng.random() < 0.3:
        nn = n[0]

        def fh(x):
            c.monitor('als_func.fh')
            return np.stack([np.cos(j * np.asarray(x, dtype=float)) for j in range(nn)])
        u = c.rng.random()
        kw['fh'] = fh if u < 0.45 else ([fh] * d if u < 0.85 else c.own([fh]))     # a one-element list is rejected on the pinned tree
    elif c.rng.random() < 0.2:
        kw['n_max'] = n[0] + int(c.rng.integers(0, 2))
    if c.rng.random() < 0.1:
        kw['log'] = True
    return Call('als_func', teneva.als_func, [X, y, A0], kw, mutable=mutable, defaults_dict=dd)


# ------------------------------------------------------------------ documented argument types (doc-driven representation jitter)

_DOC_TYPES = {}


def documented_types(fn):
    """{parameter: [documented type names]} parsed from the Args section of the docstring."""
    import re
    key = getattr(fn, '__qualname__', repr(fn))
    if key not in _DOC_TYPES:
        out = {}
        doc = getattr(fn, '__doc__', None) or ''
        m = re.search(r'Args:(.*?)(Returns:|Note:|$)', doc, flags=re.S)
        if m:
            for pm in re.finditer(r'^\s{8}(\w+) \(([^)]*)\):', m.group(1), flags=re.M):
                out[pm.group(1)] = [t.strip() for t in pm.group(2).split(',')]
        _DOC_TYPES[key] = out
    return _DOC_TYPES[key]


def _numbers_only(v, depth=0):
    if isinstance(v, (bool, str)) or v is None:
        return False
    if isinstance(v, (int, float, np.integer, np.floating)):
        return True
    if isinstance(v, (list, tuple)) and depth < 2 and len(v) > 0:
        return all(_numbers_only(x, depth + 1) for x in v)
    return False


def jitter_types(call, c, prob=0.3):
    """Re-express arguments in another representation the docstring allows for that parameter: int <-> float (integral values),
    list <-> np.ndarray (lists of numbers only). Values are preserved; the new object is registered with the caller."""
    import inspect
    try:
        params = list(inspect.signature(call.fn).parameters)
    except (TypeError, ValueError):
        return call
    doc = documented_types(call.fn)

    def conv(pname, v):
        types = doc.get(pname)
        if not types or c.rng.random() >= prob:
            return v
        if isinstance(v, bool) and 'bool' in types:
            return np.bool_(v)          # the result of a numpy comparison used as a flag
        if isinstance(v, bool) or v is None or callable(v):
            return v
        if isinstance(v, (int, np.integer)) and 'float' in types:
            return float(v)
        if isinstance(v, float) and 'int' in types and v == int(v) and abs(v) < 2 ** 31:
            return int(v)
        if isinstance(v, list) and 'np.ndarray' in types and _numbers_only(v):
            try:
                return c.own(np.array(v))
            except Exception:
                return v
        if isinstance(v, np.ndarray) and 'list' in types and 1 <= v.ndim <= 2 and v.size <= 200 and v.dtype.kind in 'iuf':
            return c.own(v.tolist())
        return v
    for i, p in enumerate(params[:len(call.args)]):
        if i in call.mutable:
            continue
        call.args[i] = conv(p, call.args[i])
    for k in list(call.kwargs):
        if k in call.mutable or k == call.seed_kw:
            continue
        call.kwargs[k] = conv(k, call.kwargs[k])
    return call


def build(name, c):
    """Build a call of catalogue entry `name` with context c (builder + doc-driven representation jitter)."""
    call = ENTRIES[name]['build'](c)
    if not call.passthrough or name in ('grid_prep_opt', 'grid_prep_opts', 'core_stab'):
        call = jitter_types(call, c)
    return call


def exported_callables():
    import inspect
    out = []
    for nm in dir(teneva):
        if nm.startswith('_'):
            continue
        ob = getattr(teneva, nm)
        if inspect.ismodule(ob) or not callable(ob):
            continue
        out.append(nm)
    return sorted(out)


def uncatalogued():
    return [nm for nm in exported_callables() if nm not in ENTRIES]


# composite entries that are not names of exported callables
COMPOSITE = ['anova_from_file', 'als_swap_default_info', 'als_vld_default_info', 'ANOVA_call']
